#!/bin/bash
# usage: ./seedtest2.sh <name> <patch.diff> <check id>...
# like seedtest.sh, but against a scratch worktree of /repo (VERIF_REPO) and from a scratch copy of /verif,
# so that /repo, the committed evidence and the working tree being edited are all untouched. Several may run at once.
name="$1"; patch="$2"; shift 2
export GOFLAGS=-mod=mod GOPROXY=off GOSUMDB=off GOTOOLCHAIN=local
wt=/tmp/wt/st-$name; vc=/tmp/wt/v-$name
git -C /repo worktree remove --force "$wt" 2>/dev/null
git -C /repo worktree add -q --detach "$wt" HEAD || exit 2
trap 'git -C /repo worktree remove --force "$wt" 2>/dev/null; rm -rf "$vc"' EXIT
rsync -a --delete --exclude .git --exclude bin --exclude replays --exclude .scratch --exclude evidence "$(dirname "$(readlink -f "$0")")/" "$vc/" || exit 2
( cd "$wt" && git apply "$patch" ) || { echo "$name: patch does not apply"; exit 2; }
( cd "$wt" && go build ./... ) || { echo "$name: does not compile"; exit 2; }
if [ -z "$SKIP_SUITE" ]; then
  f=$(cd "$wt" && timeout 400 go test -timeout 180s -count=1 ./... 2>&1 | grep -c "^FAIL\|^---.*FAIL\|panic:")
  echo "$name: repo suite FAIL lines: $f"
fi
unset GOFLAGS
for c in "$@"; do
  s=$(date +%s); out=$(VERIF_REPO="$wt" "$vc/check.sh" $c ${TIER:-quick} 2>&1); rc=$?
  echo "$name:  check $c -> exit $rc ($(( $(date +%s) - s ))s) $(echo "$out" | grep -c '^VIOLATION') violation(s)"
  echo "$out" | grep '^  ' | cut -c1-240 | head -3
  [ $rc = 2 ] && echo "$out" | tail -5
done
