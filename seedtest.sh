#!/bin/bash
# usage: ./seedtest.sh <patch.diff> <check id>...   — applies a seeded change to /repo, runs the checks, reverts.
patch="$1"; shift
export GOFLAGS=-mod=mod GOPROXY=off GOSUMDB=off GOTOOLCHAIN=local
cd /repo || exit 2
[ -n "$(git status --porcelain)" ] && { echo "/repo not clean"; exit 2; }
git apply "$patch" || { echo "patch does not apply"; exit 2; }
trap 'git -C /repo checkout -- . ; git -C /repo clean -fdq' EXIT
go build ./... || { echo "SEED does not compile"; exit 2; }
if [ -z "$SKIP_SUITE" ]; then
  f=$(timeout 400 go test -timeout 180s -count=1 ./... 2>&1 | grep -c "^FAIL\|^---.*FAIL\|panic:")
  echo "repo suite FAIL lines: $f"
fi
cd /verif
for c in "$@"; do
  s=$(date +%s); out=$(./check.sh $c ${TIER:-quick} 2>&1); rc=$?
  echo "  check $c -> exit $rc ($(( $(date +%s) - s ))s) $(echo "$out" | grep -c '^VIOLATION') violation(s)"
  echo "$out" | grep '^  ' | cut -c1-260 | head -4
done
