#!/bin/bash
# regenerates every evidence file by running every registered check (tier = $1, default quick)
cd "$(dirname "$0")"
tier="${1:-quick}"
ids=$(python3 -c "import json;print(' '.join(c['property_id'] for c in json.load(open('MANIFEST.json'))['checks']))")
fail=0
for id in $ids; do
  s=$(date +%s)
  out=$(./check.sh $id $tier 2>&1); rc=$?
  e=$(( $(date +%s) - s ))
  echo "$id rc=$rc ${e}s $(echo "$out" | grep -c '^VIOLATION') violations, $(echo "$out" | grep -c '^KNOWN-FINDING') known"
  [ $rc != 0 ] && { fail=1; echo "$out" | tail -5; }
done
exit $fail
