#!/bin/bash
# usage: mut.sh <name> <file> <python-replace-old> <new> <check...>
name="$1"; file="$2"; old="$3"; new="$4"; shift 4
cd /repo && python3 - "$file" "$old" "$new" <<'PY'
import sys
p,old,new=sys.argv[1:4]
s=open(p).read()
assert s.count(old)>=1, "pattern not found"
open(p,'w').write(s.replace(old,new,1))
PY
[ $? = 0 ] || { echo "MUTANT $name: patch failed"; git -C /repo checkout -- .; exit; }
export GOFLAGS=-mod=mod GOPROXY=off GOSUMDB=off GOTOOLCHAIN=local
if ! go build ./... 2>/dev/null; then echo "MUTANT $name: does not compile"; git -C /repo checkout -- .; exit; fi
t=$(timeout 300 go test -timeout 120s -count=1 ./... 2>&1 | grep -c "^FAIL")
echo "MUTANT $name: repo test FAIL lines=$t"
cd /verif
for c in "$@"; do
  out=$(./check.sh $c quick 2>&1); rc=$?
  echo "   check $c -> exit $rc $(echo "$out" | grep -c VIOLATION) violations: $(echo "$out" | grep -m2 '^  ' | cut -c1-200 | tr '\n' '|')"
done
git -C /repo checkout -- .
