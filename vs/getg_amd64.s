#include "textflag.h"

// func getg() uintptr — the current goroutine's g pointer (used only as an identity key)
TEXT ·getg(SB),NOSPLIT,$0-8
	MOVQ (TLS), R14
	MOVQ R14, ret+0(FP)
	RET
