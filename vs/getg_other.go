//go:build !amd64

package vs

func gkey() uintptr { return uintptr(goid()) }
