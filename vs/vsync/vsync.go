// Package vsync replaces package sync in instrumented files.
package vsync

import (
	"sync"

	"verif/vs"
)

type Mutex = vs.Mutex
type RWMutex = vs.RWMutex
type WaitGroup = sync.WaitGroup
type Once = sync.Once
type Map = sync.Map
