package vs

func getg() uintptr

// gkey identifies the current goroutine (its g pointer; entries are removed when the thread exits).
func gkey() uintptr { return getg() }
