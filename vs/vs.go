// Package vs is the cooperative scheduler of engine E2: code instrumented by cmd/vsinst parks at every
// synchronisation operation (gate) and the scheduler decides which enabled transition fires next.
// With no scheduler installed (Cur == nil) every gate is a no-op and the shims fall through to the real
// primitives (pass-through mode, used by the free-running -race pass).
package vs

import (
	"fmt"
	"reflect"
	"runtime"
	"sort"
	"strings"
	"sync"
	"time"
)

type Case struct {
	Send bool
	Ch   interface{}
}

func R(c interface{}) Case { return Case{false, c} }
func S(c interface{}) Case { return Case{true, c} }

const (
	opStart = iota
	opLock
	opRLock
	opSelect
	opYield
)

type op struct {
	kind       int
	mu         *Mutex
	rw         *RWMutex
	cases      []Case
	hasDefault bool
	what       string
}

type Thread struct {
	ID       int
	Name     string
	resume   chan int
	op       *op
	Exited   bool
	rendez   bool // last transition was the sending half of a rendezvous
	Panicked string
}

type Timer struct {
	s     *Sched
	ID    int
	Armed bool
	Fired bool
	f     func()
	D     time.Duration
}

type trans struct {
	t       *Thread
	alt     int
	partner *Thread
	palt    int
	timer   *Timer
}

// Point = one scheduling decision.
type Point struct {
	N      int   // number of alternatives
	Chosen int   // index taken
	Owners []int // owner thread id per alternative (-1 = timer expiry)
	Last   int   // thread that ran last
	Desc   []string
}

type Sched struct {
	mu       sync.Mutex
	Threads  []*Thread
	parked   chan *Thread
	running  int
	closed   map[uintptr]bool
	Timers   []*Timer
	prefix   []int
	Points   []Point
	last     int
	byG      sync.Map
	Fires    int
	MaxFires int
	Steps    int
	Diverged string
	Trace    []string
	KeepDesc bool
	NoBranch bool // deterministic phase: always take alternative 0, record no point, fire no timer ...
	PrefixFires int // ... except up to this many expiries, taken only when nothing else is enabled
	Errors   []string
	Panics   []string // panics that reached govnr (recovered by the supervising loop)
}

var Cur *Sched

// SoleWriterOff disables the sole-writer reduction (every RLock is a scheduling point again).
var SoleWriterOff bool

func New(prefix []int) *Sched {
	s := &Sched{parked: make(chan *Thread, 256), closed: map[uintptr]bool{}, prefix: prefix, last: -1}
	Cur = s
	return s
}

func Finish() { Cur = nil }

func goid() int64 {
	var buf [40]byte
	n := runtime.Stack(buf[:], false)
	// "goroutine 123 ["
	var id int64
	for _, c := range buf[10:n] {
		if c < '0' || c > '9' {
			break
		}
		id = id*10 + int64(c-'0')
	}
	return id
}

func (s *Sched) me() *Thread {
	v, ok := s.byG.Load(gkey())
	if !ok {
		return nil
	}
	return v.(*Thread)
}

func (s *Sched) spawn(name string, f func()) *Thread {
	s.mu.Lock()
	t := &Thread{ID: len(s.Threads), resume: make(chan int), Name: name}
	s.Threads = append(s.Threads, t)
	s.running++
	s.mu.Unlock()
	go func() {
		s.byG.Store(gkey(), t)
		defer func() {
			if r := recover(); r != nil {
				t.Panicked = fmt.Sprint(r)
			}
			s.byG.Delete(gkey())
			t.Exited = true
			t.op = nil
			s.parked <- t
		}()
		s.park(t, &op{kind: opStart})
		f()
	}()
	return t
}

// Go replaces the go statement in instrumented code.
func Go(f func()) {
	s := Cur
	if s == nil {
		go f()
		return
	}
	name := "go"
	if me := s.me(); me != nil {
		name = me.Name + ">go"
	}
	s.spawn(name, f)
}

// Thread adds a harness thread (starts parked).
func (s *Sched) Thread(name string, f func()) *Thread { return s.spawn(name, f) }

func (s *Sched) park(t *Thread, o *op) int {
	t.op = o
	s.parked <- t
	return <-t.resume
}

func chanPtr(c interface{}) uintptr { return reflect.ValueOf(c).Pointer() }

func (s *Sched) recvReadyAlone(c interface{}) bool {
	v := reflect.ValueOf(c)
	if v.IsNil() {
		return false
	}
	if s.closed[v.Pointer()] {
		return true
	}
	if v.Cap() > 0 {
		return v.Len() > 0
	}
	if v.Type().ChanDir() == reflect.RecvDir { // signal channel nobody ever sends on (ctx.Done())
		x, ok := v.TryRecv()
		return x.IsValid() && !ok
	}
	return false
}

func (s *Sched) enabled() []trans {
	var r []trans
	for _, t := range s.Threads {
		if t.Exited || t.op == nil {
			continue
		}
		o := t.op
		switch o.kind {
		case opStart, opYield:
			r = append(r, trans{t: t})
		case opLock:
			if o.mu != nil && !o.mu.held {
				r = append(r, trans{t: t})
			}
			if o.rw != nil && !o.rw.w && o.rw.r == 0 {
				r = append(r, trans{t: t})
			}
		case opRLock:
			if !o.rw.w {
				r = append(r, trans{t: t})
			}
		case opSelect:
			any := false
			for i, c := range o.cases {
				v := reflect.ValueOf(c.Ch)
				if !v.IsValid() || v.IsNil() {
					continue
				}
				if !c.Send {
					if s.recvReadyAlone(c.Ch) {
						r = append(r, trans{t: t, alt: i})
						any = true
					}
					continue
				}
				if s.closed[v.Pointer()] {
					r = append(r, trans{t: t, alt: i}) // send on closed channel: will panic, as in Go
					any = true
					continue
				}
				if v.Cap() > 0 {
					if v.Len() < v.Cap() {
						r = append(r, trans{t: t, alt: i})
						any = true
					}
					continue
				}
				for _, u := range s.Threads {
					if u == t || u.Exited || u.op == nil || u.op.kind != opSelect {
						continue
					}
					for j, uc := range u.op.cases {
						uv := reflect.ValueOf(uc.Ch)
						if !uc.Send && uv.IsValid() && !uv.IsNil() && uv.Pointer() == v.Pointer() {
							r = append(r, trans{t: t, alt: i, partner: u, palt: j})
							any = true
						}
					}
				}
			}
			if !any && o.hasDefault {
				r = append(r, trans{t: t, alt: -1})
			}
		}
	}
	// canonical order: the thread that ran last first, then ascending thread id (stable), timers last
	sort.SliceStable(r, func(i, j int) bool {
		a, b := r[i].t.ID, r[j].t.ID
		if (a == s.last) != (b == s.last) {
			return a == s.last
		}
		return a < b
	})
	for _, tm := range s.Timers {
		if tm.Armed && (!s.NoBranch && s.Fires < s.MaxFires || s.NoBranch && s.Fires < s.PrefixFires && len(r) == 0) {
			r = append(r, trans{timer: tm})
		}
	}
	return r
}

func (s *Sched) describe(x trans) string {
	if x.timer != nil {
		return fmt.Sprintf("timer#%d fires (%v)", x.timer.ID, x.timer.D)
	}
	o := x.t.op
	d := fmt.Sprintf("%s#%d ", x.t.Name, x.t.ID)
	switch o.kind {
	case opStart:
		d += "start"
	case opYield:
		d += "continue after send"
	case opLock:
		d += "lock " + o.what
	case opRLock:
		d += "rlock " + o.what
	case opSelect:
		if x.alt < 0 {
			d += "select default"
		} else if o.cases[x.alt].Send {
			d += fmt.Sprintf("send case %d", x.alt)
			if x.partner != nil {
				d += fmt.Sprintf(" -> %s#%d", x.partner.Name, x.partner.ID)
			}
		} else {
			d += fmt.Sprintf("recv case %d", x.alt)
		}
		if o.what != "" {
			d += " @" + o.what
		}
	}
	return d
}

func (s *Sched) waitParked() {
	for {
		s.mu.Lock()
		n := s.running
		s.mu.Unlock()
		if n == 0 {
			return
		}
		<-s.parked
		s.mu.Lock()
		s.running--
		s.mu.Unlock()
	}
}

// Run drives until no transition is enabled (quiescence). Returns false if the step horizon was hit.
func (s *Sched) Run(horizon int) bool {
	for step := 0; step < horizon; step++ {
		s.waitParked()
		tr := s.enabled()
		if len(tr) == 0 {
			return true
		}
		i := 0
		if s.NoBranch {
			x := tr[0]
			if s.KeepDesc {
				s.Trace = append(s.Trace, "  (fixed) "+s.describe(x))
			}
			s.fire(x)
			continue
		}
		if len(s.Points) < len(s.prefix) {
			i = s.prefix[len(s.Points)]
			if i >= len(tr) {
				s.Diverged = fmt.Sprintf("replay divergence at point %d: choice %d of %d alternatives", len(s.Points), i, len(tr))
				return true
			}
		}
		p := Point{N: len(tr), Chosen: i, Last: s.last}
		for _, x := range tr {
			if x.t != nil {
				p.Owners = append(p.Owners, x.t.ID)
			} else {
				p.Owners = append(p.Owners, -1)
			}
			if s.KeepDesc {
				p.Desc = append(p.Desc, s.describe(x))
			}
		}
		s.Points = append(s.Points, p)
		x := tr[i]
		if s.KeepDesc {
			s.Trace = append(s.Trace, s.describe(x))
		}
		s.fire(x)
	}
	return false
}

func (s *Sched) fire(x trans) {
	s.Steps++
	if x.timer != nil {
		x.timer.Armed = false
		x.timer.Fired = true
		s.Fires++
		s.spawn(fmt.Sprintf("timer%d", x.timer.ID), x.timer.f)
		return
	}
	s.last = x.t.ID
	s.mu.Lock()
	o := x.t.op
	switch o.kind {
	case opLock:
		if o.mu != nil {
			o.mu.held = true
		} else {
			o.rw.w = true
		}
	case opRLock:
		o.rw.r++
	}
	x.t.op = nil
	x.t.rendez = x.partner != nil
	s.running++
	if x.partner != nil {
		x.partner.op = nil
		x.partner.rendez = false
		s.running++
	}
	s.mu.Unlock()
	x.t.resume <- x.alt
	if x.partner != nil {
		x.partner.resume <- x.palt
	}
}

// Blocked lists the threads that have not exited, with what they wait for.
func (s *Sched) Blocked() []string {
	var r []string
	for _, t := range s.Threads {
		if !t.Exited {
			w := "?"
			if t.op != nil {
				switch t.op.kind {
				case opLock, opRLock:
					w = "lock " + t.op.what
				case opSelect:
					w = "select/chan " + t.op.what
				case opStart:
					w = "start"
				case opYield:
					w = "yield"
				}
			}
			r = append(r, fmt.Sprintf("%s#%d(%s)", t.Name, t.ID, w))
		}
	}
	return r
}

// Quiescent: no thread can take a step (armed timers aside).
func (s *Sched) Quiescent() bool {
	s.waitParked()
	for _, x := range s.enabled() {
		if x.t != nil {
			return false
		}
	}
	return true
}

func (s *Sched) ArmedTimers() int {
	n := 0
	for _, t := range s.Timers {
		if t.Armed {
			n++
		}
	}
	return n
}

func (s *Sched) Choices() []int {
	r := make([]int, len(s.Points))
	for i, p := range s.Points {
		r[i] = p.Chosen
	}
	return r
}

func caller() string {
	for skip := 2; skip < 8; skip++ {
		_, file, line, ok := runtime.Caller(skip)
		if !ok {
			break
		}
		if strings.Contains(file, "/vs/") {
			continue
		}
		if i := strings.LastIndex(file, "/"); i >= 0 {
			file = file[i+1:]
		}
		file = strings.TrimPrefix(file, "repo__")
		return fmt.Sprintf("%s:%d", file, line)
	}
	return ""
}

// ---- gates used by instrumented code

func Select(hasDefault bool, cases ...Case) int {
	s := Cur
	if s == nil {
		return -2 // pass-through: the original select decides
	}
	me := s.me()
	if me == nil {
		return -2
	}
	o := &op{kind: opSelect, cases: cases, hasDefault: hasDefault}
	if s.KeepDesc {
		o.what = caller()
	}
	return s.park(me, o)
}

// Keep tells instrumented code whether case i stays armed after Select returned k.
func Keep(k, i int) bool { return k == -2 || k == i }

func Send(c interface{}) { Select(false, S(c)) }
func Recv(c interface{}) { Select(false, R(c)) }

// Yield is called right after a send: after an unbuffered rendezvous the sender waits here so that the
// receiver's continuation and the sender's continuation are separate, ordered steps.
func Yield() {
	s := Cur
	if s == nil {
		return
	}
	me := s.me()
	if me == nil || !me.rendez {
		return
	}
	me.rendez = false
	s.park(me, &op{kind: opYield})
}

func Closed(c interface{}) {
	s := Cur
	if s == nil {
		return
	}
	s.mu.Lock()
	s.closed[chanPtr(c)] = true
	s.mu.Unlock()
}

// CtxPoint is an always-enabled scheduling point placed where the code samples a context (ctx.Err()).
func CtxPoint() {
	s := Cur
	if s == nil {
		return
	}
	me := s.me()
	if me == nil {
		return
	}
	o := &op{kind: opStart}
	s.park(me, o)
}

// ---- shim mutexes (embedded-struct compatible with sync.Mutex / sync.RWMutex)

type Mutex struct {
	real sync.Mutex
	held bool
}

func (m *Mutex) Lock() {
	s := Cur
	if s == nil {
		m.real.Lock()
		return
	}
	me := s.me()
	if me == nil {
		m.real.Lock()
		return
	}
	o := &op{kind: opLock, mu: m}
	if s.KeepDesc {
		o.what = caller()
	}
	s.park(me, o)
}
func (m *Mutex) Unlock() {
	s := Cur
	if s == nil || s.me() == nil {
		m.real.Unlock()
		return
	}
	s.mu.Lock()
	m.held = false
	s.mu.Unlock()
}

// RWMutex. Sole-writer reduction (DESIGN.md §5.1): the first thread that write-locks becomes the owner;
// read locks taken by the owner are not scheduling points (they conflict with nothing: every other thread
// only reads). A write lock by any other thread falsifies the assumption and is a harness error.
type RWMutex struct {
	real  sync.RWMutex
	w     bool
	r     int
	owner *Thread
}

func (m *RWMutex) Lock() {
	s := Cur
	if s == nil {
		m.real.Lock()
		return
	}
	me := s.me()
	if me == nil {
		m.real.Lock()
		return
	}
	if m.owner == nil {
		m.owner = me
	} else if m.owner != me {
		s.mu.Lock()
		s.Errors = append(s.Errors, fmt.Sprintf("sole-writer assumption violated: %s write-locks an RWMutex owned by %s", me.Name, m.owner.Name))
		s.mu.Unlock()
	}
	o := &op{kind: opLock, rw: m}
	if s.KeepDesc {
		o.what = caller()
	}
	s.park(me, o)
}
func (m *RWMutex) Unlock() {
	s := Cur
	if s == nil || s.me() == nil {
		m.real.Unlock()
		return
	}
	s.mu.Lock()
	m.w = false
	s.mu.Unlock()
}
func (m *RWMutex) RLock() {
	s := Cur
	if s == nil {
		m.real.RLock()
		return
	}
	me := s.me()
	if me == nil {
		m.real.RLock()
		return
	}
	if m.owner == me && !SoleWriterOff {
		s.mu.Lock()
		m.r++
		s.mu.Unlock()
		return
	}
	o := &op{kind: opRLock, rw: m}
	if s.KeepDesc {
		o.what = caller()
	}
	s.park(me, o)
}
func (m *RWMutex) RUnlock() {
	s := Cur
	if s == nil || s.me() == nil {
		m.real.RUnlock()
		return
	}
	s.mu.Lock()
	m.r--
	s.mu.Unlock()
}

// ---- timers (used through the vtime shim)

func AfterFunc(d time.Duration, f func()) *Timer {
	s := Cur
	s.mu.Lock()
	defer s.mu.Unlock()
	t := &Timer{s: s, ID: len(s.Timers), Armed: true, f: f, D: d}
	s.Timers = append(s.Timers, t)
	return t
}

func (t *Timer) Stop() bool {
	t.s.mu.Lock()
	defer t.s.mu.Unlock()
	was := t.Armed
	t.Armed = false
	return was
}

// CtxErr replaces ctx.Err() in instrumented repository files: sampling a context is a scheduling point.
func CtxErr(ctx interface{ Err() error }) error {
	CtxPoint()
	return ctx.Err()
}

// NotePanic is called by the overlaid govnr.recoverPanics: a panic reached the supervising loop.
func NotePanic(p interface{}) {
	s := Cur
	if s == nil {
		return
	}
	s.mu.Lock()
	s.Panics = append(s.Panics, fmt.Sprint(p))
	s.mu.Unlock()
}
