// Package vtime replaces package time in timer_based_election_trigger.go under instrumentation:
// AfterFunc arms a scheduler-controlled timer whose expiry is an environment transition.
package vtime

import (
	"time"

	"verif/vs"
)

type Duration = time.Duration
type Time = time.Time

const (
	Nanosecond  = time.Nanosecond
	Microsecond = time.Microsecond
	Millisecond = time.Millisecond
	Second      = time.Second
	Minute      = time.Minute
	Hour        = time.Hour
)

func Now() Time { return time.Now() }

type Timer struct {
	C    <-chan Time // nil, as for timers created by time.AfterFunc
	v    *vs.Timer
	real *time.Timer
}

func AfterFunc(d Duration, f func()) *Timer {
	if vs.Cur == nil {
		return &Timer{real: time.AfterFunc(d, f)}
	}
	return &Timer{v: vs.AfterFunc(d, f)}
}

func (t *Timer) Stop() bool {
	if t.real != nil {
		return t.real.Stop()
	}
	return t.v.Stop()
}
