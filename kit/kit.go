// Package kit holds the strict SPI implementations shared by all engines (DESIGN.md §3.1).
// Nothing here comes from the repository's test mocks: signatures are unforgeable keyed hashes,
// the block validator is a faithful consumer, storage order is a harness decision.
package kit

import (
	"bytes"
	"context"
	"crypto/sha256"
	"errors"
	"fmt"
	"sort"
	"sync/atomic"
	"time"

	"github.com/orbs-network/lean-helix-go/services/interfaces"
	"github.com/orbs-network/lean-helix-go/services/storage"
	"github.com/orbs-network/lean-helix-go/spec/types/go/primitives"
	"github.com/orbs-network/lean-helix-go/spec/types/go/protocol"
)

const Instance = primitives.InstanceId(7)

// ---------------------------------------------------------------- blocks

type Block struct {
	H   primitives.BlockHeight
	Tag string
}

func (b *Block) Height() primitives.BlockHeight             { return b.H }
func (b *Block) ReferenceTime() primitives.TimestampSeconds { return RefTimeOf(uint64(b.H)) }

// RefTimeOf: reference time of the block at height h (distinct from h itself so the two cannot be confused).
func RefTimeOf(h uint64) primitives.TimestampSeconds { return primitives.TimestampSeconds(1000 + 7*h) }

// PrevRefTime: the reference time a correct caller passes when it asks for the committee of height h
// (that of the previous block; 0 for genesis).
func PrevRefTime(h primitives.BlockHeight) primitives.TimestampSeconds {
	if h <= 1 {
		return 0
	}
	return RefTimeOf(uint64(h) - 1)
}
func (b *Block) String() string                             { return fmt.Sprintf("%d:%s", b.H, b.Tag) }

func NewBlock(h uint64, tag string) *Block { return &Block{primitives.BlockHeight(h), tag} }

func HashOf(b interfaces.Block) primitives.BlockHash {
	if b == nil {
		return nil
	}
	x, ok := b.(*Block)
	if !ok || x == nil {
		return nil
	}
	s := sha256.Sum256([]byte(fmt.Sprintf("BLK|%d|%s", x.H, x.Tag)))
	return append([]byte{}, s[:6]...)
}

func TagOf(b interfaces.Block) string {
	if b == nil {
		return "-"
	}
	x, ok := b.(*Block)
	if !ok || x == nil {
		return "-"
	}
	return x.Tag
}

// ---------------------------------------------------------------- keys

// Sig is the only way to produce a signature: a keyed hash over (kind, secret(id), height, content).
// Honest nodes sign only through the library; the adversary may call Sig only with ids it owns.
func Sig(kind string, id primitives.MemberId, h primitives.BlockHeight, content []byte) []byte {
	s := sha256.Sum256([]byte(fmt.Sprintf("%s|SECRET-%x|%d|%x", kind, []byte(id), uint64(h), content)))
	return append([]byte{}, s[:6]...)
}

func SeedDigest(content []byte) []byte {
	s := sha256.Sum256(append([]byte("SEED|"), content...))
	return s[:4]
}

// Share = digest(content) ++ keyed hash; the digest lets AggregateRandomSeed (which is not given the
// content) produce the master signature over the same content.
func Share(id primitives.MemberId, h primitives.BlockHeight, content []byte) []byte {
	d := SeedDigest(content)
	return append(append([]byte{}, d...), Sig("R", id, h, d)...)
}

func MasterSeedSig(h primitives.BlockHeight, digest []byte) []byte {
	s := sha256.Sum256([]byte(fmt.Sprintf("AGG|MASTER|%d|%x", uint64(h), digest)))
	return append([]byte{}, s[:6]...)
}

type KeyManager struct {
	Me primitives.MemberId
}

func (k *KeyManager) SignConsensusMessage(ctx context.Context, h primitives.BlockHeight, c []byte) primitives.Signature {
	return Sig("C", k.Me, h, c)
}
func (k *KeyManager) VerifyConsensusMessage(h primitives.BlockHeight, c []byte, s *protocol.SenderSignature) error {
	if s == nil || len(s.MemberId()) == 0 {
		return errors.New("no sender")
	}
	if !bytes.Equal(Sig("C", s.MemberId(), h, c), s.Signature()) {
		return errors.New("bad signature")
	}
	return nil
}
func (k *KeyManager) SignRandomSeed(ctx context.Context, h primitives.BlockHeight, c []byte) primitives.RandomSeedSignature {
	return Share(k.Me, h, c)
}
func (k *KeyManager) VerifyRandomSeed(h primitives.BlockHeight, c []byte, s *protocol.SenderSignature) error {
	if s == nil {
		return errors.New("no sender")
	}
	if len(s.MemberId()) == 0 { // master
		if !bytes.Equal(MasterSeedSig(h, SeedDigest(c)), s.Signature()) {
			return errors.New("bad aggregated seed signature")
		}
		return nil
	}
	if !bytes.Equal(Share(s.MemberId(), h, c), s.Signature()) {
		return errors.New("bad share")
	}
	return nil
}
func (k *KeyManager) AggregateRandomSeed(h primitives.BlockHeight, shares []*protocol.SenderSignature) primitives.RandomSeedSignature {
	if len(shares) == 0 || len(shares[0].Signature()) < 4 {
		return nil
	}
	// like a threshold scheme: the aggregate only comes out right from shares that are their claimed owners' shares
	// over one and the same content
	d := shares[0].Signature()[:4]
	for _, sh := range shares {
		sig := sh.Signature()
		if len(sig) < 4 || !bytes.Equal(sig[:4], d) || !bytes.Equal(sig[4:], Sig("R", sh.MemberId(), h, d)) {
			return []byte("BAD-AGGREGATE")
		}
	}
	return MasterSeedSig(h, d)
}

// ---------------------------------------------------------------- membership

type Member struct {
	ID     primitives.MemberId
	Weight uint64
}

type Committee []Member

func (c Committee) Members() []interfaces.CommitteeMember {
	r := make([]interfaces.CommitteeMember, len(c))
	for i, m := range c {
		r[i] = interfaces.CommitteeMember{Id: m.ID, Weight: primitives.MemberWeight(m.Weight)}
	}
	return r
}

func (c Committee) Index(id primitives.MemberId) int {
	for i, m := range c {
		if m.ID.Equal(id) {
			return i
		}
	}
	return -1
}

func EqualCommittee(n int) Committee {
	c := make(Committee, n)
	for i := range c {
		c[i] = Member{ID: []byte(fmt.Sprintf("n%d", i)), Weight: 1}
	}
	return c
}

// LongIDCommittee: equal weights, ids that share a long common prefix (as addresses of one deployment do).
func LongIDCommittee(n int) Committee {
	c := make(Committee, n)
	for i := range c {
		c[i] = Member{ID: []byte(fmt.Sprintf("orbs-validator-node-eu-west-1-deployment-%d", i)), Weight: 1}
	}
	return c
}

func WeightedCommittee(w ...uint64) Committee {
	c := make(Committee, len(w))
	for i := range c {
		c[i] = Member{ID: []byte(fmt.Sprintf("n%d", i)), Weight: w[i]}
	}
	return c
}

type Membership struct {
	Me        primitives.MemberId
	Committee Committee
	// ForHeight, if set, overrides Committee per height (rotation).
	ForHeight func(h primitives.BlockHeight) Committee
	Calls     int
	// BadRefTime counts committee requests whose prevBlockReferenceTime is not that of block h-1; such a request
	// is answered with a committee of strangers (a consumer whose committees rotate with the reference time).
	BadRefTime int32
	// Gate, if set, is called with the context of every RequestOrderedCommittee call (E2 blocking SPI).
	Gate func(ctx context.Context, h primitives.BlockHeight) error
}

func (m *Membership) MyMemberId() primitives.MemberId { return m.Me }
func (m *Membership) at(h primitives.BlockHeight, t primitives.TimestampSeconds) Committee {
	c := m.Committee
	if m.ForHeight != nil {
		c = m.ForHeight(h)
	}
	if t != PrevRefTime(h) {
		atomic.AddInt32(&m.BadRefTime, 1)
		return Strangers(c)
	}
	return c
}

// Strangers: the committee (same weights, other identities) that a request with a wrong reference time is answered with.
func Strangers(c Committee) Committee {
	o := make(Committee, len(c))
	for i, x := range c {
		o[i] = Member{ID: []byte(fmt.Sprintf("stranger%d", i)), Weight: x.Weight}
	}
	return o
}
func (m *Membership) RequestOrderedCommittee(ctx context.Context, h primitives.BlockHeight, seed uint64, t primitives.TimestampSeconds) ([]interfaces.CommitteeMember, error) {
	m.Calls++
	if m.Gate != nil {
		if err := m.Gate(ctx, h); err != nil {
			return nil, err
		}
	}
	return m.at(h, t).Members(), nil
}
func (m *Membership) RequestCommitteeForBlockProof(ctx context.Context, h primitives.BlockHeight, t primitives.TimestampSeconds) ([]interfaces.CommitteeMember, error) {
	r := m.at(h, t).Members()
	for i, j := 0, len(r)-1; i < j; i, j = i+1, j-1 { // same set, different order
		r[i], r[j] = r[j], r[i]
	}
	return r, nil
}

// ---------------------------------------------------------------- block utils (faithful consumer)

type ValCall struct {
	Height uint64
	Tag    string
	OK     bool
	CtxErr bool
	Leader string // the member the library named as the proposer
}
type ReqCall struct {
	Height uint64
	Tag    string
	CtxErr bool
}

type BlockUtils struct {
	Me      primitives.MemberId
	View    func() uint64 // current view of the node, for deterministic proposal tags
	Invalid map[string]bool
	// AcceptNil: a sloppy consumer whose validator does not look at the block at all when it is missing
	AcceptNil bool
	Vals    []ValCall
	Reqs    []ReqCall
	reqCount map[string]int
	// Gates for E2 (blocking SPI): called with the context, may wait on it.
	ReqGate func(ctx context.Context, h primitives.BlockHeight)
	ValGate func(ctx context.Context, h primitives.BlockHeight)
	// HonourCtx: ValidateBlockProposal returns ctx.Err() (no verdict) when its context is cancelled by the time the gate lets it go
	HonourCtx bool
}

func (b *BlockUtils) RequestNewBlockProposal(ctx context.Context, h primitives.BlockHeight, m primitives.MemberId, prev interfaces.Block) (interfaces.Block, primitives.BlockHash) {
	if b.ReqGate != nil {
		b.ReqGate(ctx, h)
	}
	v := uint64(0)
	if b.View != nil {
		v = b.View()
	}
	// every call yields a new block (as a real consumer's does): the tag carries the call count
	tag := fmt.Sprintf("P%s.%d.%d", string(b.Me), uint64(h), v)
	if n := b.reqCount[tag]; n > 0 {
		tag = fmt.Sprintf("%s#%d", tag, n)
	}
	if b.reqCount == nil {
		b.reqCount = map[string]int{}
	}
	b.reqCount[fmt.Sprintf("P%s.%d.%d", string(b.Me), uint64(h), v)]++
	x := &Block{h, tag}
	b.Reqs = append(b.Reqs, ReqCall{uint64(h), x.Tag, ctx.Err() != nil})
	return x, HashOf(x)
}
func (b *BlockUtils) ValidateBlockProposal(ctx context.Context, h primitives.BlockHeight, m primitives.MemberId, block interfaces.Block, bh primitives.BlockHash, prev interfaces.Block) error {
	if b.ValGate != nil {
		b.ValGate(ctx, h)
	}
	if b.HonourCtx && ctx.Err() != nil {
		// a consumer that honours the context it was given: once cancelled it gives up WITHOUT a verdict on the block
		b.Vals = append(b.Vals, ValCall{uint64(h), TagOf(block), false, true, string(m)})
		return ctx.Err()
	}
	ok := block != nil && HashOf(block) != nil && bytes.Equal(HashOf(block), bh) && block.Height() == h && !b.Invalid[TagOf(block)]
	if block == nil && b.AcceptNil {
		ok = true
	}
	b.Vals = append(b.Vals, ValCall{uint64(h), TagOf(block), ok, ctx.Err() != nil, string(m)})
	if !ok {
		return errors.New("consumer rejects proposal")
	}
	return nil
}
func (b *BlockUtils) ValidateBlockCommitment(h primitives.BlockHeight, block interfaces.Block, bh primitives.BlockHash) bool {
	return block != nil && HashOf(block) != nil && bytes.Equal(HashOf(block), bh)
}

// ---------------------------------------------------------------- communication

type Out struct {
	To  []primitives.MemberId
	Msg *interfaces.ConsensusRawMessage
}

type Comm struct {
	Outs []Out
	Hook func(o Out)
}

func (c *Comm) SendConsensusMessage(ctx context.Context, to []primitives.MemberId, m *interfaces.ConsensusRawMessage) error {
	o := Out{To: append([]primitives.MemberId{}, to...), Msg: m}
	c.Outs = append(c.Outs, o)
	if c.Hook != nil {
		c.Hook(o)
	}
	return nil
}

// ---------------------------------------------------------------- fake election trigger (E1)

type FakeTrigger struct {
	H        primitives.BlockHeight
	V        primitives.View
	Cb       func(primitives.BlockHeight, primitives.View, interfaces.OnElectionCallback)
	Regs     int
	Stops    int
	ch       chan *interfaces.ElectionTrigger
	Timeouts []uint64 // views passed to CalcTimeout are not recorded; kept for future use
}

func (e *FakeTrigger) RegisterOnElection(h primitives.BlockHeight, v primitives.View, cb func(primitives.BlockHeight, primitives.View, interfaces.OnElectionCallback)) {
	e.H, e.V, e.Cb = h, v, cb
	e.Regs++
}
func (e *FakeTrigger) ElectionChannel() chan *interfaces.ElectionTrigger {
	if e.ch == nil {
		e.ch = make(chan *interfaces.ElectionTrigger)
	}
	return e.ch
}
func (e *FakeTrigger) CalcTimeout(v primitives.View) time.Duration { return time.Second }
func (e *FakeTrigger) Stop()                                        { e.Cb = nil; e.Stops++ }
func (e *FakeTrigger) Armed() (uint64, uint64, bool) {
	return uint64(e.H), uint64(e.V), e.Cb != nil
}

// ---------------------------------------------------------------- storage decorator

// Store wraps the real in-memory storage. It records every successful Store* call and returns
// multi-element results sorted by sender id (ascending, or descending if Desc), so Go map iteration
// order is a harness decision.
type Store struct {
	*storage.InMemoryStorage
	Desc bool
	Rec  []string // successful stores since last ClearBlockHeightLogs
	All  []string // every Store* call: "<ok>/<descriptor>"
	// OnStore, if set, sees every message handed to a Store* call (kind, instance id, height, stored?)
	OnStore func(kind string, inst uint64, height uint64, ok bool)
}

func NewStore(desc bool) *Store {
	return &Store{InMemoryStorage: storage.NewInMemoryStorage(), Desc: desc}
}

func (s *Store) less(a, b primitives.MemberId) bool {
	if s.Desc {
		return bytes.Compare(a, b) > 0
	}
	return bytes.Compare(a, b) < 0
}

func hx(b []byte) string { return fmt.Sprintf("%x", b) }

// CanonRef / CanonVote: is the signed header encoded canonically (exactly the bytes the library's own builders
// produce for these field values)? A non-canonical header (e.g. canonical bytes plus padding) reads the same.
func CanonRef(b *protocol.BlockRef) bool {
	if b == nil || len(b.Raw()) == 0 {
		return true
	}
	c := (&protocol.BlockRefBuilder{MessageType: b.MessageType(), InstanceId: b.InstanceId(), BlockHeight: b.BlockHeight(), View: b.View(), BlockHash: b.BlockHash()}).Build().Raw()
	return bytes.Equal(c, b.Raw())
}

func CanonVote(h *protocol.ViewChangeHeader) bool {
	if h == nil || len(h.Raw()) == 0 {
		return true
	}
	hb := &protocol.ViewChangeHeaderBuilder{MessageType: h.MessageType(), InstanceId: h.InstanceId(), BlockHeight: h.BlockHeight(), View: h.View()}
	if p := h.PreparedProof(); p != nil && len(p.Raw()) > 0 {
		hb.PreparedProof = protocol.PreparedProofBuilderFromRaw(p.Raw())
	}
	return bytes.Equal(hb.Build().Raw(), h.Raw())
}

func ncMark(ok bool) string {
	if ok {
		return ""
	}
	return "~nc"
}

func (s *Store) note(ok bool, d string) {
	if ok {
		s.Rec = append(s.Rec, d)
		s.All = append(s.All, "1/"+d)
	} else {
		s.All = append(s.All, "0/"+d)
	}
}

func (s *Store) StorePreprepare(m *interfaces.PreprepareMessage) bool {
	ok := s.InMemoryStorage.StorePreprepare(m)
	if s.OnStore != nil {
		s.OnStore("PP", uint64(m.InstanceId()), uint64(m.BlockHeight()), ok)
	}
	s.note(ok, fmt.Sprintf("PP/%d/%d/%s/%s/%s", m.BlockHeight(), m.View(), hx(m.Content().SignedHeader().BlockHash()), string(m.SenderMemberId()), TagOf(m.Block()))+ncMark(CanonRef(m.Content().SignedHeader())))
	return ok
}
func (s *Store) StorePrepare(m *interfaces.PrepareMessage) bool {
	ok := s.InMemoryStorage.StorePrepare(m)
	if s.OnStore != nil {
		s.OnStore("P", uint64(m.InstanceId()), uint64(m.BlockHeight()), ok)
	}
	s.note(ok, fmt.Sprintf("P/%d/%d/%s/%s", m.BlockHeight(), m.View(), hx(m.Content().SignedHeader().BlockHash()), string(m.SenderMemberId()))+ncMark(CanonRef(m.Content().SignedHeader())))
	return ok
}
func (s *Store) StoreCommit(m *interfaces.CommitMessage) bool {
	ok := s.InMemoryStorage.StoreCommit(m)
	if s.OnStore != nil {
		s.OnStore("C", uint64(m.InstanceId()), uint64(m.BlockHeight()), ok)
	}
	s.note(ok, fmt.Sprintf("C/%d/%d/%s/%s", m.BlockHeight(), m.View(), hx(m.Content().SignedHeader().BlockHash()), string(m.SenderMemberId()))+ncMark(CanonRef(m.Content().SignedHeader())))
	return ok
}
func (s *Store) StoreViewChange(m *interfaces.ViewChangeMessage) bool {
	ok := s.InMemoryStorage.StoreViewChange(m)
	if s.OnStore != nil {
		s.OnStore("VC", uint64(m.InstanceId()), uint64(m.BlockHeight()), ok)
	}
	d := sha256.Sum256(m.Raw())
	s.note(ok, fmt.Sprintf("VC/%d/%d/%s/%x/%s", m.BlockHeight(), m.View(), string(m.SenderMemberId()), d[:4], TagOf(m.Block())))
	return ok
}
func (s *Store) GetPrepareMessages(h primitives.BlockHeight, v primitives.View, bh primitives.BlockHash) ([]*interfaces.PrepareMessage, bool) {
	r, ok := s.InMemoryStorage.GetPrepareMessages(h, v, bh)
	sort.Slice(r, func(i, j int) bool { return s.less(r[i].SenderMemberId(), r[j].SenderMemberId()) })
	return r, ok
}
func (s *Store) GetPrepareSendersIds(h primitives.BlockHeight, v primitives.View, bh primitives.BlockHash) []primitives.MemberId {
	r := s.InMemoryStorage.GetPrepareSendersIds(h, v, bh)
	sort.Slice(r, func(i, j int) bool { return s.less(r[i], r[j]) })
	return r
}
func (s *Store) GetCommitMessages(h primitives.BlockHeight, v primitives.View, bh primitives.BlockHash) ([]*interfaces.CommitMessage, bool) {
	r, ok := s.InMemoryStorage.GetCommitMessages(h, v, bh)
	sort.Slice(r, func(i, j int) bool { return s.less(r[i].SenderMemberId(), r[j].SenderMemberId()) })
	return r, ok
}
func (s *Store) GetCommitSendersIds(h primitives.BlockHeight, v primitives.View, bh primitives.BlockHash) []primitives.MemberId {
	r := s.InMemoryStorage.GetCommitSendersIds(h, v, bh)
	sort.Slice(r, func(i, j int) bool { return s.less(r[i], r[j]) })
	return r
}
func (s *Store) GetPrepareMessagesFromView(h primitives.BlockHeight, v primitives.View) ([]*interfaces.PrepareMessage, bool) {
	r, ok := s.InMemoryStorage.GetPrepareMessagesFromView(h, v)
	sort.Slice(r, func(i, j int) bool {
		if !bytes.Equal(r[i].SenderMemberId(), r[j].SenderMemberId()) {
			return s.less(r[i].SenderMemberId(), r[j].SenderMemberId())
		}
		return bytes.Compare(r[i].Raw(), r[j].Raw()) < 0
	})
	return r, ok
}
func (s *Store) GetCommitMessagesFromView(h primitives.BlockHeight, v primitives.View) ([]*interfaces.CommitMessage, bool) {
	r, ok := s.InMemoryStorage.GetCommitMessagesFromView(h, v)
	sort.Slice(r, func(i, j int) bool {
		if !bytes.Equal(r[i].SenderMemberId(), r[j].SenderMemberId()) {
			return s.less(r[i].SenderMemberId(), r[j].SenderMemberId())
		}
		return bytes.Compare(r[i].Raw(), r[j].Raw()) < 0
	})
	return r, ok
}
func (s *Store) GetViewChangeMessages(h primitives.BlockHeight, v primitives.View) ([]*interfaces.ViewChangeMessage, bool) {
	r, ok := s.InMemoryStorage.GetViewChangeMessages(h, v)
	sort.Slice(r, func(i, j int) bool { return s.less(r[i].SenderMemberId(), r[j].SenderMemberId()) })
	return r, ok
}
func (s *Store) ClearBlockHeightLogs(h primitives.BlockHeight) {
	s.InMemoryStorage.ClearBlockHeightLogs(h)
	s.Rec = nil
	s.All = append(s.All, fmt.Sprintf("CLEAR/%d", h))
}

// SortedRec returns the successful-store descriptors as a sorted multiset (canonical form).
func (s *Store) SortedRec() []string {
	r := append([]string{}, s.Rec...)
	sort.Strings(r)
	return r
}

// ChainSeedSig(h) = the aggregated random-seed signature of the proof of height h on a chain whose every
// height was committed through this key manager (it depends only on the height and the previous seed).
func ChainSeedSig(h uint64, calc func(sig []byte) uint64, toBytes func(uint64) []byte) []byte {
	var prev []byte
	for k := uint64(1); k <= h; k++ {
		prev = MasterSeedSig(primitives.BlockHeight(k), SeedDigest(toBytes(calc(prev))))
	}
	return prev
}
