// racecheck: the free-running -race pass of DESIGN.md §5.4 — an ASSUMPTION check, not a deciding step.
// The same kind of scenario bodies as engine E2 run on real goroutines, real channels and real time with the
// Go race detector on; E2 schedules only at synchronisation operations, which is sufficient only if there are
// no unsynchronised shared accesses. Build with: go build -race -tags verif ./cmd/racecheck
package main

import (
	"context"
	"fmt"
	"os"
	"sync"
	"time"

	"verif/ev"
	"verif/kit"

	lh "github.com/orbs-network/lean-helix-go"
	"github.com/orbs-network/lean-helix-go/services/interfaces"
	"github.com/orbs-network/lean-helix-go/services/messagesfactory"
	"github.com/orbs-network/lean-helix-go/services/randomseed"
	"github.com/orbs-network/lean-helix-go/spec/types/go/primitives"
	"github.com/orbs-network/lean-helix-go/spec/types/go/protocol"
)

type safeComm struct {
	mu sync.Mutex
	n  int
}

func (c *safeComm) SendConsensusMessage(ctx context.Context, to []primitives.MemberId, m *interfaces.ConsensusRawMessage) error {
	c.mu.Lock()
	c.n++
	c.mu.Unlock()
	return nil
}

func main() {
	iters := 150
	if len(os.Args) > 1 {
		fmt.Sscan(os.Args[1], &iters)
	}
	c := kit.EqualCommittee(4)
	seed := randomseed.CalculateRandomSeed(nil)
	fac := func(i int) *messagesfactory.MessageFactory {
		return messagesfactory.NewMessageFactory(kit.Instance, &kit.KeyManager{Me: c[i].ID}, c[i].ID, seed)
	}
	commits := 0
	start := time.Now()
	// a genuine proof of (1, "B1") by members 0, 2, 3: ValidateBlockConsensus then runs the quorum arithmetic
	// concurrently with the worker's own vote counting
	vblk := kit.NewBlock(1, "B1")
	vhdr := &protocol.BlockRefBuilder{MessageType: protocol.LEAN_HELIX_COMMIT, InstanceId: kit.Instance, BlockHeight: 1, View: 0, BlockHash: kit.HashOf(vblk)}
	var nodes []*protocol.SenderSignatureBuilder
	for _, i := range []int{0, 2, 3} {
		nodes = append(nodes, &protocol.SenderSignatureBuilder{MemberId: c[i].ID, Signature: kit.Sig("C", c[i].ID, 1, vhdr.Build().Raw())})
	}
	vproof := (&protocol.BlockProofBuilder{BlockRef: vhdr, Nodes: nodes, RandomSeedSignature: kit.MasterSeedSig(1, kit.SeedDigest(randomseed.RandomSeedToBytes(seed)))}).Build().Raw()
	validated := 0
	for it := 0; it < iters; it++ {
		me := 1
		var mu sync.Mutex
		cfg := &interfaces.Config{InstanceId: kit.Instance, Communication: &safeComm{}, Membership: &kit.Membership{Me: c[me].ID, Committee: c},
			BlockUtils: &kit.BlockUtils{Me: c[me].ID}, KeyManager: &kit.KeyManager{Me: c[me].ID}, ElectionTimeoutOnV0: time.Duration(2+it%9) * time.Millisecond}
		ctx, cancel := context.WithCancel(context.Background())
		m := lh.NewLeanHelix(cfg, func(ctx context.Context, b interfaces.Block, p []byte) error {
			mu.Lock()
			commits++
			mu.Unlock()
			return nil
		}, func(ctx context.Context, h primitives.BlockHeight, prev interfaces.Block, can bool) {})
		m.Run(ctx)
		m.UpdateState(ctx, nil, nil)
		blk := kit.NewBlock(1, "B1")
		hash := kit.HashOf(blk)
		var msgs []*interfaces.ConsensusRawMessage
		msgs = append(msgs, fac(0).CreatePreprepareMessage(1, 0, blk, hash).ToConsensusRawMessage())
		for _, i := range []int{2, 3} {
			msgs = append(msgs, fac(i).CreatePrepareMessage(1, 0, hash).ToConsensusRawMessage())
		}
		for _, i := range []int{0, 2, 3} {
			msgs = append(msgs, fac(i).CreateCommitMessage(1, 0, hash).ToConsensusRawMessage())
		}
		var wg sync.WaitGroup
		wg.Add(4)
		fed := make(chan struct{})
		go func() {
			defer wg.Done()
			for _, x := range msgs {
				m.HandleConsensusMessage(ctx, x)
			}
			close(fed)
		}()
		go func() {
			defer wg.Done()
			if it%3 != 0 {
				return // two of three iterations run without a competing sync, so the commit path is exercised too
			}
			time.Sleep(time.Duration(it%7) * 100 * time.Microsecond)
			m.UpdateState(ctx, kit.NewBlock(uint64(1+it%3), "S"), nil)
		}()
		go func() {
			defer wg.Done()
			for k := 0; k < 20; k++ {
				_ = m.State().HeightView()
				m.ValidateBlockConsensus(ctx, blk, []byte{1, 2, 3}, nil, nil, k%2 == 0)
				if m.ValidateBlockConsensus(ctx, vblk, vproof, nil, nil, k%2 == 0) == nil {
					mu.Lock()
					validated++
					mu.Unlock()
				}
			}
		}()
		go func() {
			defer wg.Done()
			if it%2 == 0 { // every other iteration: let the traffic through first, then give the timer a chance
				<-fed
				time.Sleep(time.Duration(1+it%4) * time.Millisecond)
			} else {
				time.Sleep(time.Duration(it%11) * 200 * time.Microsecond)
			}
			cancel()
		}()
		wg.Wait()
		m.WaitUntilShutdown(context.Background())
	}
	e := ev.New("C13", os.Getenv("VERIF_TIER_NAME"))
	if e.Tier != "thorough" {
		e.Tier = "quick"
	}
	e.Coverage["evaluations"] = iters
	e.Coverage["distinct_nontrivial"] = iters
	e.Coverage["rule"] = "free-running -race pass (assumption check of E2, not a deciding step): real goroutines, real time; per iteration one node, four concurrent API threads (consensus traffic, UpdateState, State()/ValidateBlockConsensus readers incl. a genuine proof, cancellation at a varying delay). distinct_nontrivial = iterations (each has its own delays)"
	e.Coverage["samples"] = []interface{}{fmt.Sprintf("%d iterations, %d commits, %d successful concurrent proof validations", iters, commits, validated)}
	e.Coverage["exhaustive"] = false
	e.Assumptions = []string{"the Go race detector reports only races that actually occur in the runs"}
	e.Write(start)
	fmt.Printf("racecheck: %d free-running iterations, %d commits, %d concurrent proof validations\n", iters, commits, validated)
}
