// vsinst: purely syntactic instrumenter for engine E2 (DESIGN.md §2.2).
// usage: vsinst <outdir> <file>...   — writes rewritten copies into outdir and prints an overlay JSON.
// Unsupported shapes abort with exit code 2 (no verdict, never a VIOLATION).
package main

import (
	"bytes"
	"encoding/json"
	"fmt"
	"go/ast"
	"go/parser"
	"go/printer"
	"go/token"
	"os"
	"path/filepath"
	"strconv"
	"strings"
)

const vsPath = "verif/vs"

var ctr int
var used bool

func tmp(p string) *ast.Ident { ctr++; return ast.NewIdent(fmt.Sprintf("vs__%s%d", p, ctr)) }

func call(fn string, args ...ast.Expr) *ast.CallExpr {
	return &ast.CallExpr{Fun: &ast.SelectorExpr{X: ast.NewIdent("vs"), Sel: ast.NewIdent(fn)}, Args: args}
}
func define(id *ast.Ident, e ast.Expr) ast.Stmt {
	return &ast.AssignStmt{Lhs: []ast.Expr{id}, Tok: token.DEFINE, Rhs: []ast.Expr{e}}
}
func isRecv(e ast.Expr) (*ast.UnaryExpr, bool) {
	u, ok := e.(*ast.UnaryExpr)
	return u, ok && u.Op == token.ARROW
}

type unsupported struct{ msg string }

func fail(pos token.Pos, fset *token.FileSet, msg string) {
	panic(unsupported{fmt.Sprintf("%s: %s", fset.Position(pos), msg)})
}

var fset *token.FileSet

func rewriteSelect(s *ast.SelectStmt) []ast.Stmt {
	used = true
	var pre []ast.Stmt
	var cases []ast.Expr
	var chans []*ast.Ident
	hasDefault := "false"
	for _, c := range s.Body.List {
		cc := c.(*ast.CommClause)
		if cc.Comm == nil {
			hasDefault = "true"
			continue
		}
		switch st := cc.Comm.(type) {
		case *ast.SendStmt:
			c0, v0 := tmp("c"), tmp("v")
			pre = append(pre, define(c0, st.Chan), define(v0, st.Value))
			st.Chan, st.Value = c0, v0
			cases = append(cases, call("S", c0))
			chans = append(chans, c0)
			cc.Body = append([]ast.Stmt{&ast.ExprStmt{X: call("Yield")}}, cc.Body...)
		case *ast.ExprStmt:
			u, ok := isRecv(st.X)
			if !ok {
				fail(st.Pos(), fset, "unsupported comm clause")
			}
			c0 := tmp("c")
			pre = append(pre, define(c0, u.X))
			u.X = c0
			cases = append(cases, call("R", c0))
			chans = append(chans, c0)
		case *ast.AssignStmt:
			if len(st.Rhs) != 1 {
				fail(st.Pos(), fset, "unsupported comm clause")
			}
			u, ok := isRecv(st.Rhs[0])
			if !ok {
				fail(st.Pos(), fset, "unsupported comm clause")
			}
			c0 := tmp("c")
			pre = append(pre, define(c0, u.X))
			u.X = c0
			cases = append(cases, call("R", c0))
			chans = append(chans, c0)
		default:
			fail(cc.Pos(), fset, "unsupported comm clause")
		}
	}
	k := tmp("k")
	args := append([]ast.Expr{ast.NewIdent(hasDefault)}, cases...)
	pre = append(pre, define(k, call("Select", args...)))
	for i, c := range chans {
		pre = append(pre, &ast.IfStmt{
			Cond: &ast.UnaryExpr{Op: token.NOT, X: call("Keep", k, &ast.BasicLit{Kind: token.INT, Value: strconv.Itoa(i)})},
			Body: &ast.BlockStmt{List: []ast.Stmt{&ast.AssignStmt{Lhs: []ast.Expr{c}, Tok: token.ASSIGN, Rhs: []ast.Expr{ast.NewIdent("nil")}}}},
		})
	}
	if len(chans) == 0 {
		pre = append(pre, &ast.AssignStmt{Lhs: []ast.Expr{ast.NewIdent("_")}, Tok: token.ASSIGN, Rhs: []ast.Expr{k}})
	}
	return append(pre, s)
}

func rewriteStmt(s ast.Stmt) []ast.Stmt {
	switch st := s.(type) {
	case *ast.LabeledStmt:
		r := rewriteStmt(st.Stmt)
		st.Stmt = r[len(r)-1]
		return append(r[:len(r)-1], st)
	case *ast.SelectStmt:
		return rewriteSelect(st)
	case *ast.SendStmt:
		used = true
		c0, v0 := tmp("c"), tmp("v")
		return []ast.Stmt{define(c0, st.Chan), define(v0, st.Value), &ast.ExprStmt{X: call("Send", c0)}, &ast.SendStmt{Chan: c0, Value: v0}, &ast.ExprStmt{X: call("Yield")}}
	case *ast.ExprStmt:
		if u, ok := isRecv(st.X); ok {
			used = true
			c0 := tmp("c")
			pre := []ast.Stmt{define(c0, u.X), &ast.ExprStmt{X: call("Recv", c0)}}
			u.X = c0
			return append(pre, st)
		}
		if c, ok := st.X.(*ast.CallExpr); ok {
			if id, ok := c.Fun.(*ast.Ident); ok && id.Name == "close" && len(c.Args) == 1 {
				used = true
				c0 := tmp("c")
				pre := []ast.Stmt{define(c0, c.Args[0]), &ast.ExprStmt{X: call("Closed", c0)}}
				c.Args[0] = c0
				return append(pre, st)
			}
		}
	case *ast.AssignStmt:
		if len(st.Rhs) == 1 {
			if u, ok := isRecv(st.Rhs[0]); ok {
				used = true
				c0 := tmp("c")
				pre := []ast.Stmt{define(c0, u.X), &ast.ExprStmt{X: call("Recv", c0)}}
				u.X = c0
				return append(pre, st)
			}
		}
	case *ast.DeferStmt:
		if id, ok := st.Call.Fun.(*ast.Ident); ok && id.Name == "close" && len(st.Call.Args) == 1 {
			used = true
			arg := st.Call.Args[0]
			body := &ast.BlockStmt{List: []ast.Stmt{&ast.ExprStmt{X: call("Closed", arg)}, &ast.ExprStmt{X: &ast.CallExpr{Fun: ast.NewIdent("close"), Args: []ast.Expr{arg}}}}}
			st.Call = &ast.CallExpr{Fun: &ast.FuncLit{Type: &ast.FuncType{Params: &ast.FieldList{}}, Body: body}}
			return []ast.Stmt{st}
		}
	case *ast.GoStmt:
		used = true
		var pre []ast.Stmt
		for i, a := range st.Call.Args {
			t := tmp("a")
			pre = append(pre, define(t, a))
			st.Call.Args[i] = t
		}
		fl := &ast.FuncLit{Type: &ast.FuncType{Params: &ast.FieldList{}}, Body: &ast.BlockStmt{List: []ast.Stmt{&ast.ExprStmt{X: st.Call}}}}
		return append(pre, &ast.ExprStmt{X: call("Go", fl)})
	case *ast.RangeStmt:
		// for range over a channel cannot be expressed with gates
		// (we cannot know the type syntactically; flag only the obvious `for x := range ch` on identifiers ending in "Channel"/"Chan")
		if id, ok := st.X.(*ast.Ident); ok && (strings.HasSuffix(id.Name, "Channel") || strings.HasSuffix(id.Name, "Chan")) {
			fail(st.Pos(), fset, "for-range over a channel is not supported")
		}
	}
	return []ast.Stmt{s}
}

func rewriteList(l []ast.Stmt) []ast.Stmt {
	var out []ast.Stmt
	for _, s := range l {
		out = append(out, rewriteStmt(s)...)
	}
	return out
}

// leftover channel operations (nested inside expressions) would escape the scheduler: refuse them.
func checkLeftovers(f *ast.File) {
	ast.Inspect(f, func(n ast.Node) bool {
		if u, ok := n.(*ast.UnaryExpr); ok && u.Op == token.ARROW {
			if id, ok := u.X.(*ast.Ident); !ok || !strings.HasPrefix(id.Name, "vs__") {
				fail(u.Pos(), fset, "receive nested inside an expression is not supported")
			}
		}
		return true
	})
}

func process(path, outdir string, ctxPoints bool) (string, error) {
	fset = token.NewFileSet()
	f, err := parser.ParseFile(fset, path, nil, 0)
	if err != nil {
		return "", err
	}
	used = false
	var lists []interface{}
	ast.Inspect(f, func(n ast.Node) bool {
		switch x := n.(type) {
		case *ast.BlockStmt, *ast.CaseClause, *ast.CommClause:
			lists = append(lists, x)
		}
		return true
	})
	for i := len(lists) - 1; i >= 0; i-- {
		switch x := lists[i].(type) {
		case *ast.BlockStmt:
			if len(x.List) > 0 {
				if _, isComm := x.List[0].(*ast.CommClause); isComm {
					continue
				}
				if _, isCase := x.List[0].(*ast.CaseClause); isCase {
					continue
				}
			}
			x.List = rewriteList(x.List)
		case *ast.CaseClause:
			x.Body = rewriteList(x.Body)
		case *ast.CommClause:
			x.Body = rewriteList(x.Body)
		}
	}
	checkLeftovers(f)
	if ctxPoints {
		// X.Err() with no arguments (context sampling) becomes vs.CtxErr(X): a scheduling point
		ast.Inspect(f, func(n ast.Node) bool {
			c, ok := n.(*ast.CallExpr)
			if !ok || len(c.Args) != 0 {
				return true
			}
			sel, ok := c.Fun.(*ast.SelectorExpr)
			if !ok || sel.Sel.Name != "Err" {
				return true
			}
			if id, ok := sel.X.(*ast.Ident); ok && (id.Name == "ctx" || strings.HasSuffix(id.Name, "Ctx") || strings.HasSuffix(id.Name, "ctx")) {
				used = true
				c.Fun = &ast.SelectorExpr{X: ast.NewIdent("vs"), Sel: ast.NewIdent("CtxErr")}
				c.Args = []ast.Expr{id}
			}
			return true
		})
	}
	isTrigger := strings.HasSuffix(path, "timer_based_election_trigger.go")
	for _, im := range f.Imports {
		p, _ := strconv.Unquote(im.Path.Value)
		if p == "sync" {
			im.Path.Value = strconv.Quote(vsPath + "/vsync")
			im.Name = ast.NewIdent("sync")
		}
		if p == "time" && isTrigger {
			im.Path.Value = strconv.Quote(vsPath + "/vtime")
			im.Name = ast.NewIdent("time")
		}
	}
	if used {
		spec := &ast.ImportSpec{Name: ast.NewIdent("vs"), Path: &ast.BasicLit{Kind: token.STRING, Value: strconv.Quote(vsPath)}}
		gd := &ast.GenDecl{Tok: token.IMPORT, Specs: []ast.Spec{spec}}
		f.Decls = append([]ast.Decl{gd}, f.Decls...)
	}
	var buf bytes.Buffer
	if err := printer.Fprint(&buf, fset, f); err != nil {
		return "", err
	}
	out := filepath.Join(outdir, strings.ReplaceAll(strings.TrimPrefix(path, "/"), "/", "__"))
	return out, os.WriteFile(out, buf.Bytes(), 0644)
}

func main() {
	defer func() {
		if r := recover(); r != nil {
			if u, ok := r.(unsupported); ok {
				fmt.Fprintln(os.Stderr, "vsinst: unsupported construct:", u.msg)
				os.Exit(2)
			}
			panic(r)
		}
	}()
	outdir := os.Args[1]
	repl := map[string]string{}
	for _, p := range os.Args[2:] {
		ctxPoints := !strings.Contains(p, "/pkg/mod/") // repository files (not the module cache): context samples become scheduling points
		if strings.HasPrefix(p, "static:") { // static:<target>=<replacement>
			kv := strings.SplitN(strings.TrimPrefix(p, "static:"), "=", 2)
			repl[kv[0]] = kv[1]
			continue
		}
		o, err := process(p, outdir, ctxPoints)
		if err != nil {
			fmt.Fprintln(os.Stderr, "vsinst:", p, err)
			os.Exit(2)
		}
		repl[p] = o
	}
	json.NewEncoder(os.Stdout).Encode(map[string]interface{}{"Replace": repl})
}
