// pmc: engine E1 driver. Usage: pmc -prop C01 -tier quick|thorough | pmc -replay <file>
package main

import (
	"flag"
	"fmt"
	"os"
	"runtime/pprof"
	"sort"
	"strings"
	"time"

	"verif/ev"
	"verif/kit"
	"verif/pmc"
)

func prims(s string) map[string]bool {
	m := map[string]bool{}
	for _, p := range strings.Fields(s) {
		m[p] = true
	}
	return m
}

func config(name string) pmc.Cfg {
	c := pmc.Cfg{Name: name, MaxView: 2, Alphabet: []string{"A", "B"}, Heights: 1}
	if i := strings.Index(name, "^2"); i >= 0 { // "K2^2@v0e": two heights (nodes go on to height 2 after their first commit)
		base := config(name[:i] + name[i+2:])
		base.Name, base.Heights = name, 2
		return base
	}
	if i := strings.Index(name, "~r"); i >= 0 { // "K0~r@v1": the flush macro delivers a node's pending messages in reverse canonical order (COMMITs first, proposal last)
		base := config(name[:i] + name[i+2:])
		base.Name, base.RevOrder = name, true
		return base
	}
	if strings.HasSuffix(name, "~d") { // "K1~d": storage returns multi-element results in DESCENDING sender order
		base := config(strings.TrimSuffix(name, "~d"))
		base.Name, base.Desc = name, true
		return base
	}
	// "K2@v0" = configuration K2 with honest timeouts only below view 0 (i.e. none), "@v1" below view 1, ...
	if i := strings.Index(name, "@v"); i >= 0 {
		fmt.Sscanf(name[i+2:], "%d", &c.MaxView)
		base := config(name[:i])
		base.Name, base.MaxView = name, c.MaxView
		base.Eager = strings.HasSuffix(name, "e")  // "K2@v0e": eager adversary (no lazy-delivery reduction)
		base.Sloppy = strings.HasSuffix(name, "s") // "K1@v1s": consumer validators accept a missing block
		if strings.HasSuffix(name, "a") {          // "K2@v1a": one-block alphabet (no equivocation; the adversary's freedom is elsewhere)
			base.Alphabet = []string{"A"}
		}
		if strings.HasSuffix(name, "z") { // "K1@v1z": every correct consumer rejects block Z (external validity, C04)
			base.Alphabet = []string{"Z", "A"}
			base.Invalid = map[int]map[string]bool{}
			for i := range base.C {
				base.Invalid[i] = map[string]bool{"Z": true}
			}
		}
		return base
	}
	switch name {
	case "K1": // 4 equal, Byzantine = leader of view 1
		c.C, c.Byz = kit.EqualCommittee(4), []int{1}
	case "K1L": // as K1, member ids share a 10-byte prefix
		c.C, c.Byz = kit.LongIDCommittee(4), []int{1}
	case "K2": // 4 equal, Byzantine = leader of view 0 (equivocating proposer, honest next leaders)
		c.C, c.Byz = kit.EqualCommittee(4), []int{0}
	case "K3": // weights 1,2,3,4 (W=10, f=3, Q=7), Byzantine = member of weight 3 (leader of view 2)
		c.C, c.Byz = kit.WeightedCommittee(1, 2, 3, 4), []int{2}
	case "K3b": // weights 1,2,3,4, Byzantine = members of weight 1 and 2 (leaders of views 0 and 1)
		c.C, c.Byz = kit.WeightedCommittee(1, 2, 3, 4), []int{0, 1}
	case "K4": // 5 equal (W=5, f=1, Q=4), Byzantine = leader of view 1
		c.C, c.Byz = kit.EqualCommittee(5), []int{1}
	case "K5": // 4 equal, nobody Byzantine, member 3 crashed
		c.C, c.Silent = kit.EqualCommittee(4), []int{3}
	case "K6": // 4 equal + an outsider with a valid key, Byzantine = leader of view 1
		c.C, c.Byz, c.Outsider = kit.EqualCommittee(4), []int{1}, true
	case "K8": // weights 1,7,1,1 (W=10, f=3, Q=7): the leader of view 1 is a quorum by itself; Byzantine = the light leader of view 0
		c.C, c.Byz = kit.WeightedCommittee(1, 7, 1, 1), []int{0}
	case "K8b": // weights 1,7,1,1: the three light members (weight 3 = f) are Byzantine, the only correct member is a quorum alone
		c.C, c.Byz = kit.WeightedCommittee(1, 7, 1, 1), []int{0, 2, 3}
	case "K10": // weights 7,1,1,1, nobody Byzantine: the leader of view 0 is a quorum by itself (decides inside its own proposal step)
		c.C = kit.WeightedCommittee(7, 1, 1, 1)
	case "K10b": // the same with the three light members silent
		c.C, c.Silent = kit.WeightedCommittee(7, 1, 1, 1), []int{1, 2, 3}
	case "K10x": // weights 7,1,1,1, a light member Byzantine, and every commit callback FAILS: the heavy member decides alone but stays in its height
		c.C, c.Byz, c.CommitFails = kit.WeightedCommittee(7, 1, 1, 1), []int{1}, true
	case "K10y": // weights 7,1,1,1, nobody Byzantine, the HEAVY member's commit callback fails (it decides alone, stays in the height and takes part in the view changes that follow; the light members' commits are observed)
		c.C, c.CommitFailsAt = kit.WeightedCommittee(7, 1, 1, 1), []int{0}
	case "K1x": // 4 equal, Byzantine leader of view 1, every commit callback fails
		c.C, c.Byz, c.CommitFails = kit.EqualCommittee(4), []int{1}, true
	case "K0": // 4 equal, every member correct (one more correct member than a quorum: a member can be shown a COMMIT quorum before the proposal)
		c.C = kit.EqualCommittee(4)
	case "K9": // 4 equal, Byzantine = leader of view 2 (correct leaders in views 0 and 1: locks exist when the Byzantine leader assembles its NEW_VIEW)
		c.C, c.Byz = kit.EqualCommittee(4), []int{2}
	case "K7": // 7 equal, two Byzantine members (leaders of views 0 and 1)
		c.C, c.Byz = kit.EqualCommittee(7), []int{0, 1}
	default:
		panic("unknown configuration " + name)
	}
	return c
}

type run struct {
	cfg    string
	menu   string
	prims  string
	d      int
	eager  bool
	budget time.Duration
	diffK  int
	liveN  int
	cap    int
	desc   bool
	maxV   uint64
}

// The menu portfolio (DESIGN.md §4.2). PPV (stand-alone PREPREPARE above view 0) is a recorded known
// finding and therefore never part of a searched menu; its witness is replayed separately.
var menus = map[string]string{
	"M0":   "",
	"M1":   "PC",
	"M2":   "PC PP0",
	"M3":   "PC VC",
	"M3T":  "PP0 VCT", // votes whose (valid) proof carries a non-standard type in the part its Byzantine leader re-signed
	"M4":   "PC NV",
	"M4F":  "PC NVF",
	"M4W":  "PC NVW NVH NVB",
	"M4H":  "PC NVH", // NEW_VIEWs whose embedded PREPREPARE names another hash than the proven / attached block
	"M6":   "PC XT",
	"M7":   "PC OUT",
	"MALL": "PC PP0 VC NV NVF NVW NVH NVB XT OUT",
	"MN":   "PC NVN PP0",
	"MZ":   "PC PP0 NV NVM NVB VC",
	"MNC":  "PC PP0 NC", // + the adversary's own messages signed over a non-canonical encoding of the header
	"ME":   "NVE",
	"MO":   "PC OUT NVO", // outsider (valid key, not a member): its own PREPARE/COMMIT/VIEW_CHANGE, and NEW_VIEWs of a Byzantine leader padded with its vote
	"MCS":  "PC CS", // + own COMMIT carrying another member's random-seed share
	"MX":   "PC PX", // + PREPARE / COMMIT for a hash nobody proposed
	"MP0":  "NV NVP",
	"MP":   "PC NV NVP", // Byzantine leader: a valid NEW_VIEW to some, then one in which a correct member's PREPARE/COMMIT stands in for its vote
	"MT":   "PC NVT", // NEW_VIEW of a Byzantine leader whose embedded proposal declares another message type
	"MB":   "PC NVB",           // NEW_VIEWs of a Byzantine leader, genuine in every signed part, with and without a substituted block body
	"MZE":  "PC PP0 NV NVE VC", // + NEW_VIEW / vote locked on an empty-hash proof forged from proof-less VIEW_CHANGE signatures
	"M5":   "PC PPV",           // only used to (re)generate the witness of the recorded stand-alone-PREPREPARE finding
}

func plan(prop, tier string) []run {
	q := tier == "quick"
	var r []run
	add := func(cfg, menu string, d int, budget time.Duration) {
		for i := range r { // same run requested twice (quick portfolio + thorough portfolio): keep the larger budget
			if r[i].cfg == cfg && r[i].menu == menu && r[i].d == d && r[i].diffK == 0 && r[i].liveN == 0 {
				if budget > r[i].budget {
					r[i].budget = budget
				}
				return
			}
		}
		r = append(r, run{cfg: cfg, menu: menu, prims: menus[menu], d: d, budget: budget, maxV: 2})
	}
	if prop == "C17" {
		return nil // only the two-height enumeration below serves this property in this engine
	}
	if prop == "C13" {
		// two-height searches: a slow member can hold the complete traffic of height 2 in its future cache when it commits
		// height 1 (callback order and height monotonicity across the re-entrant drain); plus the enumeration below
		bud := 20 * time.Second
		if !q {
			bud = 90 * time.Second
		}
		for _, c := range [][2]string{{"K1^2@v1", "M1"}, {"K2^2@v0e", "M2"}, {"K5^2@v0", "M0"}, {"K10^2@v1", "M0"}, {"K10b^2@v1", "M0"}, {"K3b@v4a", "M1"}, {"K2", "M2"}, {"K1", "M1"}} {
			r = append(r, run{cfg: c[0], menu: c[1], prims: menus[c[1]], budget: bud, maxV: 1})
		}
		return r
	}
	if prop == "C04" {
		// external validity: block Z is rejected by every correct consumer; Byzantine leaders propose it in
		// view 0, in NEW_VIEW without proofs, and in NEW_VIEW locked on a proof whose PREPREPARE part they re-signed
		bud := 15 * time.Second
		if !q {
			bud = 90 * time.Second
		}
		for _, c := range []string{"K2@v0z", "K1@v1z", "K3b@v1z"} {
			r = append(r, run{cfg: c, menu: "MZ", prims: menus["MZ"], budget: bud, maxV: 1})
		}
		// Byzantine members that lead TWO views within the bound: a NEW_VIEW of the second can be locked on what was
		// gathered in the first
		r = append(r, run{cfg: "K3b@v4z", menu: "ME", prims: menus["ME"], budget: 30 * time.Second, maxV: 4}) // exhaustive (~1.7e5 states)
	}
	if prop == "C12" {
		// protocol-level robustness: a consumer whose validator accepts a missing block; proposals without
		// blocks (stand-alone and inside NEW_VIEW) must never crash a node later on
		for _, c := range []string{"K1@v1s", "K2@v1s", "K3b@v1s"} {
			r = append(r, run{cfg: c, menu: "MN", prims: menus["MN"], budget: 20 * time.Second, maxV: 1})
		}
		// consumers whose commit callback fails: the node stays in the height it decided and keeps handling messages and timeouts there
		for _, c := range []string{"K10x@v2", "K1x@v1"} {
			r = append(r, run{cfg: c, menu: "MX", prims: menus["MX"], budget: 20 * time.Second, maxV: 2})
		}
		return r
	}
	if prop == "C05" {
		n, cap := 400, 4000
		if !q {
			n, cap = 6000, 60000
		}
		for _, c := range [][2]string{{"K1", "M1"}, {"K2", "M2"}, {"K3", "M3"}, {"K1", "M4"}, {"K8", "M1"}} {
			r = append(r, run{cfg: c[0], menu: c[1], prims: menus[c[1]], budget: 60 * time.Second, maxV: 2, liveN: n, cap: cap})
		}
		// exhaustively explored view-bounded spaces (one-block alphabet): here the extension starts from deep states too
		// (nodes prepared in different views, half-finished elections). quick: every state of the small spaces and a
		// fixed-stride subset of the larger one; thorough: every state.
		all := pmc.LiveAll
		r = append(r, run{cfg: "K8@v1a", menu: "M1", prims: menus["M1"], budget: 60 * time.Second, maxV: 1, liveN: all})
		r = append(r, run{cfg: "K1@v0a", menu: "M1", prims: menus["M1"], budget: 60 * time.Second, maxV: 0, liveN: all})
		r = append(r, run{cfg: "K8b@v1a", menu: "M1", prims: menus["M1"], budget: 60 * time.Second, maxV: 1, liveN: all})
		// four correct members, every single-delivery order of view 0 (states in which a member holds a COMMIT quorum
		// before the proposal): the members that accepted the committed view's proposal must all commit
		k0 := -3000
		if !q {
			k0 = -20000 // fixed-stride subset (every state would take hours: 1.1e5 states x phases x strategies)
		}
		r = append(r, run{cfg: "K0@v0a", menu: "M0", prims: menus["M0"], d: -1, budget: 60 * time.Second, maxV: 0, liveN: k0})
		if q {
			r = append(r, run{cfg: "K1@v1a", menu: "M1", prims: menus["M1"], budget: 60 * time.Second, maxV: 1, liveN: -400})
		} else {
			r = append(r, run{cfg: "K1@v1a", menu: "M1", prims: menus["M1"], budget: 120 * time.Second, maxV: 1, liveN: all})
			r = append(r, run{cfg: "K2@v1a", menu: "M2", prims: menus["M2"], budget: 300 * time.Second, maxV: 1, liveN: -20000})
		}
		return r
	}
	if prop == "C08" || prop == "C07" {
		k := 400
		bud := 20 * time.Second
		if !q {
			k, bud = 6000, 60*time.Second
		}
		for _, c := range [][2]string{{"K6", "M1"}, {"K2", "M2"}, {"K3", "M1"}, {"K3b@v1", "M2"}} {
			r = append(r, run{cfg: c[0], menu: c[1], prims: menus[c[1]], budget: bud, maxV: 2, diffK: k})
		}
		if prop == "C08" {
			return r
		}
	}
	// the quick portfolio; the thorough tier runs the same configurations first, with four times the budget. The budgets of
	// the runs marked "exhaustive" are caps with a wide margin (such a run ends when its frontier empties, well before the
	// cap on an idle machine): a loaded machine must not turn an exhaustive run into a depth-bounded one
	mul := time.Duration(1)
	if !q {
		mul = 4
	}
	{
		add("K1", "M1", 0, mul*60*time.Second)       // exhaustive (~4e5 states)
		add("K2@v0e", "M2", 0, mul*15*time.Second)   // equivocating proposer, eager adversary, no timeouts: exhaustive
		add("K3b@v0e", "M2", 0, mul*15*time.Second)  // weighted, two Byzantine members: exhaustive
		add("K1@v1e", "M1", 0, mul*15*time.Second)   // eager PREPARE/COMMIT, one view change: exhaustive
		add("K3~d", "M1", 0, mul*10*time.Second)     // weighted committee, descending storage order
		add("K1L@v1", "M1", 0, mul*10*time.Second)   // long member ids with a common prefix
		add("K1@v1", "M1", -1, mul*10*time.Second)   // L2: every single-delivery order (no flush macro), one view change
		add("K2@v0e", "M2", -1, mul*15*time.Second)  // L2 under an equivocating proposer
		add("K2^2@v0e", "M2", 0, mul*15*time.Second) // two heights, equivocating proposer at both: exhaustive
		add("K1^2@v1", "M1", 0, mul*15*time.Second)  // two heights with a view change: exhaustive
		add("K2", "M2", 0, mul*12*time.Second)
		if prop == "C11" || prop == "C09" || !q {
			add("K2@v1a", "M3T", 0, mul*75*time.Second) // correct leader of view 1 elected with an odd-typed (valid) proof: exhaustive
		}
		add("K1", "MALL", 0, mul*15*time.Second)
		add("K2", "MALL", 0, mul*15*time.Second)
		add("K6", "M7", 0, mul*10*time.Second)
		add("K6@v1a", "MO", 0, mul*60*time.Second) // Byzantine leader of view 1 pads its NEW_VIEW with an outsider's vote: exhaustive
		add("K3b@v4a", "M1", 0, mul*60*time.Second) // two correct members of weights 3,4 (both needed), views up to 4: exhaustive (~2.6e5 states)
		add("K3b@v2", "M3", 0, mul*30*time.Second)  // every vote variant of two Byzantine members for the correct leader of view 2: exhaustive
		add("K10^2@v1", "M0", 0, mul*5*time.Second)   // weights 7,1,1,1: the first leader is a quorum by itself and decides inside its own proposal step: exhaustive
		add("K10b^2@v1", "M0", 0, mul*5*time.Second)  // the same with the light members silent
		add("K1@v1a", "M4F", 0, mul*10*time.Second)   // the same with a one-block alphabet (the forged NEW_VIEW re-proposes against a commit of view 0): exhaustive
		add("K1@v1", "M4F", 0, mul*40*time.Second)    // Byzantine leader of view 1: NEW_VIEWs whose votes carry forged signatures: exhaustive
		add("K1@v1", "M4H", 0, mul*30*time.Second)    // ... whose embedded PREPREPARE names another hash than the proven / attached block: exhaustive
		add("K0@v0", "M0", -1, mul*5*time.Second)     // four correct members, every single-delivery order in view 0 (a COMMIT quorum can precede the proposal): exhaustive
		if prop == "C11" || !q {
			add("K0@v1", "M0", 0, mul*80*time.Second) // four correct members, one view change: exhaustive
		}
		add("K0~r@v1", "M0", 0, mul*80*time.Second)   // four correct members, one view change, reverse flush order (COMMITs before PREPAREs before the proposal): exhaustive
		add("K1~r", "M1", 0, mul*60*time.Second)      // the first configuration of this list under the reverse flush order
		add("K10y@v2", "M0", 0, mul*30*time.Second)   // nobody Byzantine, only the heavy member's commit callback fails: light members that act on its first COMMIT are observed against the later views
		add("K10x@v2", "M1", 0, mul*15*time.Second)   // the same committee with commit callbacks that fail: the heavy member is prepared by its proposal alone, stays in the height and takes part in view changes
		add("K1@v0a", "MCS", 0, mul*30*time.Second)  // Byzantine COMMITs that carry a correct member's random-seed share: exhaustive
		add("K1@v1a", "MNC", 0, mul*30*time.Second) // the adversary's own messages signed over non-canonical header encodings: exhaustive
		add("K3b@v1", "MNC", 0, mul*30*time.Second) // the same with two Byzantine members, weighted: exhaustive
		add("K2@v1a", "MNC", 0, mul*75*time.Second) // the same from the proposer of view 0 (PREPREPARE, votes to the correct leader of view 1): exhaustive
		if prop == "C09" || prop == "C11" || prop == "C07" || !q {
			add("K1@v2a", "MT", 0, mul*100*time.Second) // NEW_VIEW whose embedded proposal declares another message type, then a further view change: exhaustive (~1.5e6 states)
		}
		if prop == "C07" || prop == "C09" || prop == "C01" || !q {
			add("K1@v1a", "MP0", 0, mul*120*time.Second) // Byzantine leader of view 1: a valid NEW_VIEW to one member, then a NEW_VIEW whose quorum counts that member's PREPARE/COMMIT as its vote: exhaustive (~1.5e6 states)
		}
		add("K1@v1a", "MB", 0, mul*60*time.Second)  // Byzantine leader of view 1 substitutes the (unsigned) block body of its NEW_VIEW: exhaustive
		add("K3b@v4a", "ME", 0, mul*60*time.Second) // two Byzantine leaders, views up to 4: NEW_VIEW / vote locked on an empty-hash proof forged from VIEW_CHANGE signatures: exhaustive
	}
	if q {
		return r
	}
	// thorough: the whole portfolio (§4.2): eager view-bounded configurations to exhaustion, then every
	// configuration x menu with a per-run budget (exhaustive where the frontier empties, else depth-bounded)
	for _, k := range []string{"K2@v0e", "K3b@v0e", "K1@v1e", "K2@v1e", "K3@v1e", "K4@v0e", "K3~d@v1e"} {
		for _, m := range []string{"M1", "M2", "MALL"} {
			add(k, m, 0, 40*time.Second)
		}
	}
	for _, k := range []string{"K1", "K2", "K3", "K3b", "K4", "K5", "K6", "K8", "K1~d", "K2~d"} {
		for _, m := range []string{"M0", "M1", "M2", "M3", "M4", "M4F", "M4W", "M6", "M7"} {
			if m == "M7" && k != "K6" {
				continue
			}
			if k == "K5" && m != "M0" {
				continue
			}
			bud := 15 * time.Second
			if k == "K1" || k == "K2" {
				bud = 40 * time.Second
			}
			add(k, m, 0, bud)
		}
		if k != "K5" {
			add(k, "MALL", 0, 40*time.Second)
		}
	}
	for _, x := range [][2]string{{"K3b@v3a", "M3"}, {"K3b@v4a", "M3"}, {"K3b@v3a", "M4"}, {"K3b@v4a", "MB"}, {"K3b@v3a", "M2"}, {"K1@v5a", "ME"}} {
		add(x[0], x[1], 0, 60*time.Second) // deeper view chains on the two-correct-member committee (depth-bounded)
	}
	add("K9@v2", "MP", 0, 120*time.Second) // the vote-substitution adversary with locks of two earlier views in play (depth-bounded)
	add("K1", "M1", 2, 90*time.Second)
	add("K2", "M2", 2, 90*time.Second)
	add("K1@v1", "M1", -1, 90*time.Second) // L2: single deliveries only, no flush
	add("K0@v1", "M0", -1, 90*time.Second) // the same with four correct members (depth-bounded)
	add("K7", "M1", 0, 90*time.Second)
	return r
}

func main() {
	prop := flag.String("prop", "C01", "property id")
	tier := flag.String("tier", "quick", "quick|thorough")
	replay := flag.String("replay", "", "replay file")
	only := flag.String("only", "", "run only cfg/menu (debug)")
	verbose := flag.Bool("v", false, "verbose")
	workers := flag.Int("workers", 16, "parallel expansion workers")
	budgetMul := flag.Float64("budget", 1, "multiply every run's wall-clock budget")
	cpuprof := flag.String("cpuprofile", "", "write cpu profile")
	flag.Parse()
	if *cpuprof != "" {
		f, _ := os.Create(*cpuprof)
		pprof.StartCPUProfile(f)
		defer pprof.StopCPUProfile()
	}
	defer func() {
		if r := recover(); r != nil {
			if he, ok := r.(pmc.HarnessError); ok {
				fmt.Fprintln(os.Stderr, "HARNESS ERROR:", he.Msg)
				os.Exit(2)
			}
			panic(r)
		}
	}()
	if *replay != "" {
		os.Exit(doReplay(*replay, true))
	}
	start := time.Now()
	known := ev.Known(*prop)
	skip := map[string]bool{}
	for _, k := range known {
		skip[k.FP] = true
	}
	evd := ev.New(*prop, *tier)
	var runs []map[string]interface{}
	var samples []interface{}
	states, trans, validated, real := 0, 0, 0, 0
	diffSteps := 0
	liveExt := 0
	exhaustiveAll := true
	violations := 0
	outcomes := map[string]bool{}
	var printed []string
	unsound := ""
	pl := plan(*prop, *tier)
	if *only != "" {
		f := strings.Split(*only, "/")
		pl = []run{{cfg: f[0], menu: f[1], prims: menus[f[1]], budget: 60 * time.Second, maxV: 2}}
		if len(f) > 2 {
			fmt.Sscanf(f[2], "%d", &pl[0].d)
		}
	}
	for _, rn := range pl {
		cfg := config(rn.cfg)
		cfg.Prims = prims(rn.prims)
		cfg.D = rn.d
		cfg.C11 = *prop == "C11" || *prop == "ALL"
		cfg.Cap = rn.cap
		cfg.Deadline = time.Now().Add(time.Duration(float64(rn.budget) * *budgetMul))
		cfg.Report = map[string]bool{*prop: true}
		maxFound := 1
		if *prop == "ALL" {
			cfg.Report = nil
			maxFound = 1000
		}
		cfg.Skip = skip
		e := pmc.NewEngine(cfg)
		e.Workers = *workers
		if *tier == "quick" {
			e.ValidateEvery = 3
		}
		t0 := time.Now()
		e.Run(maxFound)
		states += e.States
		trans += e.Transitions
		validated += e.Validated
		real += e.RealSteps
		exhaustiveAll = exhaustiveAll && e.Exhaustive
		for o := range e.Outcomes {
			outcomes[rn.cfg+":"+o] = true
		}
		info := map[string]interface{}{"config": rn.cfg, "menu": rn.menu, "primitives": rn.prims, "fine_grained_deliveries": rn.d, "max_view": cfg.MaxView,
			"states": e.States, "transitions": e.Transitions, "bfs_depth": e.MaxDepth, "real_local_steps": e.RealSteps, "exhaustive": e.Exhaustive,
			"stop": e.StopReason, "messages_by_primitive": e.MsgsByPrim(), "distinct_outcomes": len(e.Outcomes), "known_finding_hits": e.KnownHits, "wall_s": time.Since(t0).Seconds()}
		runs = append(runs, info)
		if *verbose {
			fmt.Fprintf(os.Stderr, "%s/%s d=%d: states=%d trans=%d depth=%d real=%d validated=%d exhaustive=%v (%s) outcomes=%d known=%v lstates=%d msgs=%d %.1fs\n", rn.cfg, rn.menu, rn.d, e.States, e.Transitions, e.MaxDepth, e.RealSteps, e.Validated, e.Exhaustive, e.StopReason, len(e.Outcomes), e.KnownHits, e.NumLocal(), e.NumMsgs(), time.Since(t0).Seconds())
			fmt.Fprintf(os.Stderr, "  messages by primitive: %v\n", e.MsgsByPrim())
		}
		for _, f := range e.Found {
			rf := e.Render(f)
			path := ev.ReplayPath(*prop, fmt.Sprintf("%s-%s-%s", rn.cfg, rn.menu, sanitize(f.V.Clause)))
			pmc.WriteReplay(path, rf)
			// believe it only if the table-free replay reproduces it, twice, identically
			if doReplay(path, false) == 1 {
				violations++
				printed = append(printed, fmt.Sprintf("VIOLATION property=%s replay=%s", *prop, path))
				fmt.Fprintf(os.Stderr, "  %s/%s: %s %s: %s (%d events)\n", rn.cfg, rn.menu, f.V.Prop, f.V.Clause, f.V.Detail, len(rf.Events))
			} else if e.Unsound != "" {
				continue // found through merged states of a search whose merging is unsound: not believed
			} else {
				fmt.Fprintf(os.Stderr, "HARNESS ERROR: violation %v found by the search did not reproduce in the table-free replay (%s)\n", f.V, path)
				os.Exit(2)
			}
		}
		if e.Unsound != "" {
			// the code keeps state the canonical dump does not show: no verdict from the merged search; what the diverging
			// executions themselves violated is still reported if the table-free replay reproduces it
			info["abstraction_unsound"] = true
			unsound = e.Unsound
		}
		// violations seen on one node's local history (the first step of a node; the diverging executions of an unsound merge)
		{
			seenL := map[string]bool{}
			for _, f := range e.LocalFound {
				if !cfg.Report[f.V.Prop] && cfg.Report != nil || seenL[f.V.FP()] {
					continue
				}
				seenL[f.V.FP()] = true
				rf := e.RenderLocalHist(f)
				path := ev.ReplayPath(*prop, fmt.Sprintf("%s-%s-local-%s", rn.cfg, rn.menu, sanitize(f.V.Clause)))
				pmc.WriteReplay(path, rf)
				if doReplay(path, false) == 1 {
					violations++
					printed = append(printed, fmt.Sprintf("VIOLATION property=%s replay=%s", *prop, path))
					fmt.Fprintf(os.Stderr, "  %s/%s (local history of n%d, %d events): %s %s: %s\n", rn.cfg, rn.menu, f.Node, len(f.Hist), f.V.Prop, f.V.Clause, f.V.Detail)
				}
			}
		}
		if len(samples) < 3 && e.States > 1 {
			samples = append(samples, e.SampleTrace())
		}
		// timed extension (C05): bounded liveness from every explored state
		if rn.liveN != 0 {
			t1 := time.Now()
			strategies := []string{"silent", "helpful", "spoiler", "equivocator", "prepare-only", "poisoner"}
			lr := e.Liveness(rn.liveN, strategies, *tier != "quick")
			liveExt += lr.Extensions
			info["liveness"] = map[string]interface{}{"states_extended": lr.States - lr.Skipped, "states_skipped_precondition": lr.Skipped, "extensions": lr.Extensions, "real_steps": lr.Steps, "max_view_reached": lr.MaxViews, "strategies": strategies, "wall_s": time.Since(t1).Seconds()}
			if *verbose {
				fmt.Fprintf(os.Stderr, "  liveness: states=%d skipped=%d extensions=%d steps=%d maxview=%d found=%d %.1fs\n", lr.States, lr.Skipped, lr.Extensions, lr.Steps, lr.MaxViews, len(lr.Found), time.Since(t1).Seconds())
			}
			for _, f := range lr.Found {
				rf := e.Render(pmc.Found{V: f.V, Trace: e.TraceTo(f.State), State: f.State})
				o := f.Opt
				rf.Live, rf.LiveLog = &o, f.Log
				path := ev.ReplayPath(*prop, fmt.Sprintf("%s-%s-live-%s", rn.cfg, rn.menu, sanitize(f.V.Clause)))
				pmc.WriteReplay(path, rf)
				if doReplay(path, false) == 1 {
					violations++
					printed = append(printed, fmt.Sprintf("VIOLATION property=%s replay=%s", *prop, path))
					fmt.Fprintf(os.Stderr, "  %s/%s liveness: %s: %s (prefix %d events, %+v)\n", rn.cfg, rn.menu, f.V.Clause, f.V.Detail, len(rf.Events), f.Opt)
				} else {
					fmt.Fprintf(os.Stderr, "HARNESS ERROR: liveness violation did not reproduce on replay (%s)\n", path)
					os.Exit(2)
				}
			}
		}
		// mutation differential (C07, C08): every explored local state x the mutation alphabet
		if rn.diffK > 0 {
			t1 := time.Now()
			rep := cfg.Report
			d := e.Differential(rn.diffK, rep)
			diffSteps += int(d.Steps)
			info["differential"] = map[string]interface{}{"local_states": d.States, "alphabet": d.Alphabet, "local_steps": d.Steps, "influencing_steps": d.Influenced, "alphabet_by_operator": d.ByTag, "wall_s": time.Since(t1).Seconds()}
			if *verbose {
				fmt.Fprintf(os.Stderr, "  differential: states=%d alphabet=%d steps=%d influenced=%d found=%d %.1fs\n", d.States, d.Alphabet, d.Steps, d.Influenced, len(d.Found), time.Since(t1).Seconds())
			}
			for _, f := range d.Found {
				rf := e.RenderLocal(f)
				path := ev.ReplayPath(*prop, fmt.Sprintf("%s-%s-diff-%s", rn.cfg, rn.menu, sanitize(f.V.Clause)))
				pmc.WriteReplay(path, rf)
				if doReplay(path, false) == 1 {
					violations++
					printed = append(printed, fmt.Sprintf("VIOLATION property=%s replay=%s", *prop, path))
					fmt.Fprintf(os.Stderr, "  %s/%s differential: %s %s: %s\n", rn.cfg, rn.menu, f.V.Prop, f.V.Clause, f.V.Detail)
				} else {
					fmt.Fprintf(os.Stderr, "HARNESS ERROR: differential violation %v did not reproduce in the table-free replay (%s)\n", f.V, path)
					os.Exit(2)
				}
			}
			if len(samples) < 4 && d.Alphabet > 0 {
				samples = append(samples, map[string]interface{}{"differential_alphabet_sample": e.AlphabetSample()})
			}
		}
	}
	// liveness from a height entered by node sync (C05)
	if *prop == "C05" || *prop == "ALL" {
		type sc struct {
			name           string
			c              kit.Committee
			silent, synced []int
		}
		cases := []sc{
			{"K1", kit.EqualCommittee(4), []int{3}, []int{0, 1, 2}}, {"K1", kit.EqualCommittee(4), []int{1}, []int{0, 2, 3}}, {"K1", kit.EqualCommittee(4), []int{0}, []int{1, 2, 3}},
			{"K1", kit.EqualCommittee(4), nil, []int{0, 1, 2, 3}}, {"K1", kit.EqualCommittee(4), nil, []int{0}}, {"K1", kit.EqualCommittee(4), nil, []int{1}}, {"K1", kit.EqualCommittee(4), nil, []int{2, 3}},
			{"K3", kit.WeightedCommittee(1, 2, 3, 4), []int{2}, []int{0, 1, 3}}, {"K3", kit.WeightedCommittee(1, 2, 3, 4), []int{0, 1}, []int{2, 3}}, {"K3", kit.WeightedCommittee(1, 2, 3, 4), nil, []int{0}},
			{"K4", kit.EqualCommittee(5), []int{4}, []int{0, 1, 2, 3}}, {"K8", kit.WeightedCommittee(1, 7, 1, 1), []int{0, 2, 3}, []int{1}},
		}
		var sl []interface{}
		for _, k := range cases {
			r := pmc.LiveAfterSync(k.name, k.c, k.silent, k.synced)
			liveExt++
			trans += r.Steps
			sl = append(sl, map[string]interface{}{"config": k.name, "silent": k.silent, "enter_height_2_by_sync": k.synced, "committed_height_2": r.OK, "real_steps": r.Steps})
			if !r.OK {
				path := ev.ReplayPath(*prop, fmt.Sprintf("%s-synclive-%v-%v", k.name, k.silent, k.synced))
				v := pmc.Violation{Prop: "C05", Clause: "no-commit-after-sync", Detail: fmt.Sprintf("committee %s, silent %v, members %v entered height 2 by sync, all later messages timely: %s", k.name, k.silent, k.synced, r.Why)}
				pmc.WriteReplay(path, pmc.ReplayFile{Property: "C05", Config: k.name, Violation: v, Engine: "pmc", SyncLive: &pmc.SyncLiveSpec{Silent: k.silent, Synced: k.synced}})
				violations++
				printed = append(printed, fmt.Sprintf("VIOLATION property=%s replay=%s", *prop, path))
				fmt.Fprintf(os.Stderr, "  %s\n", v.Detail)
			}
		}
		runs = append(runs, map[string]interface{}{"liveness_after_sync": sl})
	}
	// two-height future-cache paths (C03, C08, C13, C17): small exhaustive enumeration on one real node
	if *prop == "C03" || *prop == "C08" || *prop == "C13" || *prop == "C17" || *prop == "ALL" {
		for _, cname := range []string{"K1", "K3"} {
			th := pmc.TwoHeight(config(cname).C)
			runs = append(runs, map[string]interface{}{"config": cname, "two_height_cases": th.Cases, "real_steps": th.Steps, "cases_reaching_height_2": th.Reached2})
			states += th.Cases
			trans += th.Steps
			if len(samples) < 5 {
				samples = append(samples, map[string]interface{}{"two_height": th.Samples})
			}
			for _, v := range th.Viol {
				if *prop != "ALL" && v.Prop != *prop {
					continue
				}
				path := ev.ReplayPath(*prop, fmt.Sprintf("%s-twoheight-%s", cname, sanitize(v.Clause)))
				pmc.WriteReplay(path, pmc.ReplayFile{Property: v.Prop, Config: cname, Violation: v, Engine: "pmc", TwoHeight: true})
				violations++
				printed = append(printed, fmt.Sprintf("VIOLATION property=%s replay=%s", *prop, path))
				fmt.Fprintf(os.Stderr, "  %s two-height: %s %s: %s\n", cname, v.Prop, v.Clause, v.Detail)
			}
		}
	}
	// witnesses of recorded known findings
	for _, k := range known {
		w := fmt.Sprintf("%s/witness/%s-%s.json", ev.Root(), k.Prop, sanitize(k.FP))
		if _, err := os.Stat(w); err == nil {
			if doReplayFP(w, k.FP) {
				fmt.Printf("KNOWN-FINDING: property=%s %s\n", k.Prop, k.Text)
			}
		}
	}
	evd.Coverage["states"] = states
	evd.Coverage["transitions"] = trans
	evd.Coverage["traces_validated_against_impl"] = validated
	evd.Coverage["samples"] = samples
	evd.Coverage["exhaustive"] = exhaustiveAll
	evd.Coverage["runs"] = runs
	evd.Coverage["real_local_steps"] = real
	if liveExt > 0 {
		evd.Coverage["liveness_extensions"] = liveExt
		evd.Coverage["evaluations"] = liveExt
	}
	if diffSteps > 0 {
		evd.Coverage["differential_local_steps"] = diffSteps
		evd.Coverage["evaluations"] = diffSteps
	}
	evd.Coverage["distinct_outcomes"] = len(outcomes)
	evd.Coverage["explanation"] = "explicit-state BFS over tuples of real-node local states; every transition executes the real handlers (memoised per canonical local state); traces_validated_against_impl counts local steps executed from two distinct histories of the same canonical state and compared"
	evd.Assumptions = []string{"hook methods of VerifNode re-state the select-case bodies of the two loops", "strict harness key manager: signatures unforgeable", "bounds per run listed under coverage.runs"}
	evd.Violations = violations
	evd.Write(start)
	sort.Strings(printed)
	for _, p := range printed {
		fmt.Println(p)
	}
	if violations > 0 {
		pprof.StopCPUProfile()
		os.Exit(1)
	}
	if unsound != "" { // no reproducible violation, and the merged search cannot be trusted: no verdict
		fmt.Fprintln(os.Stderr, "HARNESS ERROR:", unsound)
		os.Exit(2)
	}
}

func sanitize(s string) string {
	return strings.Map(func(r rune) rune {
		if r >= 'a' && r <= 'z' || r >= 'A' && r <= 'Z' || r >= '0' && r <= '9' || r == '-' {
			return r
		}
		return '_'
	}, s)
}

// doReplay returns 1 if the recorded violation reproduces (twice, identical logs), 0 if not.
func doReplay(path string, print bool) int {
	rf, err := pmc.ReadReplay(path)
	if err != nil {
		fmt.Fprintln(os.Stderr, "cannot read replay:", err)
		return 2
	}
	cfg := config(rf.Config)
	cfg.Prims = map[string]bool{}
	if rf.TwoHeight {
		th := pmc.TwoHeight(cfg.C)
		for _, v := range th.Viol {
			if v.Prop == rf.Violation.Prop && v.Clause == rf.Violation.Clause {
				if print {
					fmt.Printf("violation: %s %s: %s\nVIOLATION property=%s replay=%s\n", v.Prop, v.Clause, v.Detail, rf.Property, path)
				}
				return 1
			}
		}
		return 0
	}
	if rf.SyncLive != nil {
		r := pmc.LiveAfterSync(rf.Config, cfg.C, rf.SyncLive.Silent, rf.SyncLive.Synced)
		if print {
			for _, l := range r.Log {
				fmt.Println(l)
			}
			fmt.Println("result:", r.OK, r.Why)
			if !r.OK {
				fmt.Printf("VIOLATION property=%s replay=%s\n", rf.Property, path)
			}
		}
		if !r.OK {
			return 1
		}
		return 0
	}
	if rf.Live != nil {
		ok1, why1, log1 := pmc.ReplayLive(cfg, rf)
		ok2, why2, _ := pmc.ReplayLive(cfg, rf)
		if ok1 != ok2 || why1 != why2 {
			fmt.Fprintln(os.Stderr, "HARNESS ERROR: liveness replay is not deterministic")
			os.Exit(2)
		}
		if print {
			for _, l := range log1 {
				fmt.Println(l)
			}
			fmt.Println("result:", ok1, why1)
			if !ok1 {
				fmt.Printf("VIOLATION property=%s replay=%s\n", rf.Property, path)
			}
		}
		if !ok1 {
			return 1
		}
		return 0
	}
	v1, l1 := pmc.Replay(cfg, rf)
	v2, l2 := pmc.Replay(cfg, rf)
	if fmt.Sprint(v1, l1) != fmt.Sprint(v2, l2) {
		fmt.Fprintln(os.Stderr, "HARNESS ERROR: replay is not deterministic")
		os.Exit(2)
	}
	hit := false
	for _, v := range v1 {
		if v.Prop == rf.Violation.Prop && v.Clause == rf.Violation.Clause {
			hit = true
		}
	}
	if print {
		for _, l := range l1 {
			fmt.Println(l)
		}
		for _, v := range v1 {
			fmt.Printf("violation: %s %s: %s\n", v.Prop, v.Clause, v.Detail)
		}
		if hit {
			fmt.Printf("VIOLATION property=%s replay=%s\n", rf.Property, path)
		}
	}
	if hit {
		return 1
	}
	return 0
}

func doReplayFP(path, fp string) bool {
	rf, err := pmc.ReadReplay(path)
	if err != nil {
		return false
	}
	cfg := config(rf.Config)
	cfg.Prims = map[string]bool{}
	v1, _ := pmc.Replay(cfg, rf)
	viaPPV := false
	for _, ev := range rf.Events {
		if ev.Prim == "PPV" {
			viaPPV = true
		}
	}
	for _, v := range v1 {
		f := v.FP()
		if strings.Contains(v.Detail, "trigger=standalone-PP") {
			f += ":standalone-PP"
		} else if viaPPV {
			f += ":via-standalone-PP"
		}
		if f == fp {
			return true
		}
	}
	return false
}
