package main

import (
	"encoding/hex"
	"encoding/json"
	"fmt"
	"math"
	"os"
	"os/exec"
	"sort"
	"sync"
	"time"

	"verif/ev"
	"verif/kit"
	"verif/ref"

	"github.com/orbs-network/lean-helix-go/services/interfaces"
	"github.com/orbs-network/lean-helix-go/services/messagesfactory"
	"github.com/orbs-network/lean-helix-go/services/preparedmessages"
	"github.com/orbs-network/lean-helix-go/services/randomseed"
	"github.com/orbs-network/lean-helix-go/spec/types/go/primitives"
	"github.com/orbs-network/lean-helix-go/spec/types/go/protocol"
)

// C12 (runtime half): every input of the alphabet is injected into a real MainLoop at one of three points of
// its life, under the deterministic default schedule; afterwards the node must still process the peers' valid
// traffic, an election and a sync, and commit.

type c12input struct {
	Class   string `json:"class"`
	Content string `json:"content_hex"`
	Block   string `json:"block"` // "-" = nil block
	BlockH  uint64 `json:"block_height"`
	Nil     bool   `json:"nil_message"`
}

func (i c12input) raw() *interfaces.ConsensusRawMessage {
	if i.Nil {
		return nil
	}
	c, _ := hex.DecodeString(i.Content)
	if i.Content == "nil" {
		c = nil
	}
	r := &interfaces.ConsensusRawMessage{Content: c}
	if i.Block != "-" {
		r.Block = kit.NewBlock(i.BlockH, i.Block)
	}
	return r
}

func c12words() []uint32 {
	return []uint32{0, 1, 2, 3, 4, 5, 8, 0x10, 0x7fffffff, 0x80000000, 0xfffffff8, 0xfffffffc, 0xfffffffd, 0xffffffff}
}

func c12alphabet(stride int) []c12input {
	var r []c12input
	add := func(class string, content []byte, blk *kit.Block) {
		in := c12input{Class: class, Content: hex.EncodeToString(content), Block: "-"}
		if content == nil {
			in.Content = "nil"
		}
		if blk != nil {
			in.Block, in.BlockH = blk.Tag, uint64(blk.H)
		}
		r = append(r, in)
	}
	c := kit.EqualCommittee(4)
	seed := randomseed.CalculateRandomSeed(nil)
	byz := messagesfactory.NewMessageFactory(kit.Instance, &kit.KeyManager{Me: c[3].ID}, c[3].ID, seed)
	lead := messagesfactory.NewMessageFactory(kit.Instance, &kit.KeyManager{Me: c[0].ID}, c[0].ID, seed)
	out := messagesfactory.NewMessageFactory(kit.Instance, &kit.KeyManager{Me: []byte("xo")}, []byte("xo"), seed)
	blk := kit.NewBlock(1, "M1")
	hash := kit.HashOf(blk)
	// first-level classes
	add("nil-content", nil, nil)
	add("empty-content", []byte{}, nil)
	for tag := 0; tag <= 7; tag++ {
		add(fmt.Sprintf("union-tag-%d-empty-body", tag), []byte{byte(tag), 0, 0, 0}, nil)
		add(fmt.Sprintf("union-tag-%d-short", tag), []byte{byte(tag), 0}, nil)
	}
	// every buffer of one, two or three little-endian 32-bit words over a boundary grid: union tags, lengths and
	// offsets that are zero, tiny, huge, or wrap around when added to an offset (0xfffffffc + 8 = 4)
	wgrid := c12words()
	le := func(ws ...uint32) []byte {
		var b []byte
		for _, w := range ws {
			b = append(b, byte(w), byte(w>>8), byte(w>>16), byte(w>>24))
		}
		return b
	}
	for _, a := range wgrid {
		add(fmt.Sprintf("words-%x", a), le(a), nil)
		for _, b := range wgrid {
			add(fmt.Sprintf("words-%x-%x", a, b), le(a, b), nil)
			if a <= 5 { // a plausible union tag first
				for _, c3 := range wgrid {
					add(fmt.Sprintf("words-%x-%x-%x", a, b, c3), le(a, b, c3), nil)
				}
			}
		}
	}
	add("eight-ff", []byte{0xff, 0xff, 0xff, 0xff, 0xff, 0xff, 0xff, 0xff}, nil)
	add("eight-mixed", []byte{0, 0, 0, 0, 0xff, 0xff, 0xff, 0x7f}, nil)
	// base messages of each type
	pm := &preparedmessages.PreparedMessages{PreprepareMessage: lead.CreatePreprepareMessage(1, 0, blk, hash),
		PrepareMessages: []*interfaces.PrepareMessage{byz.CreatePrepareMessage(1, 0, hash), out.CreatePrepareMessage(1, 0, hash)}}
	vote := byz.CreateViewChangeMessage(1, 3, pm)
	ppb := byz.CreatePreprepareMessageContentBuilder(1, 3, blk, hash)
	nv := byz.CreateNewViewMessage(1, 3, ppb, interfaces.ExtractConfirmationsFromViewChangeMessages([]*interfaces.ViewChangeMessage{vote, out.CreateViewChangeMessage(1, 3, nil)}), blk)
	bases := map[string]*interfaces.ConsensusRawMessage{
		"PP": byz.CreatePreprepareMessage(1, 3, blk, hash).ToConsensusRawMessage(), // the adversary's own proposal (it leads view 3), never the honest leader's key
		"P":  byz.CreatePrepareMessage(1, 0, hash).ToConsensusRawMessage(),
		"C":  byz.CreateCommitMessage(1, 0, hash).ToConsensusRawMessage(),
		"VC": byz.CreateViewChangeMessage(1, 1, pm).ToConsensusRawMessage(),
		"VC0": byz.CreateViewChangeMessage(1, 1, nil).ToConsensusRawMessage(), // a vote without prepared proof
		"NV": nv.ToConsensusRawMessage(),
	}
	// the same word mutations INSIDE the signed header of a vote / NEW_VIEW, re-signed by the (Byzantine) sender with its
	// own key: the outer signature verifies, so the handlers go on to read the nested parts
	resign := func(hdr []byte) []byte { return kit.Sig("C", c[3].ID, 1, hdr) }
	boundary := []uint32{0, 0x7fffffff, 0x80000000, 0xfffffff8, 0xfffffffc, 0xfffffffd, 0xffffffff}
	{
		vch := byz.CreateViewChangeMessage(1, 1, pm).Content().SignedHeader().Raw()
		vc0h := byz.CreateViewChangeMessage(1, 1, nil).Content().SignedHeader().Raw()
		nvh := nv.Content().SignedHeader().Raw()
		for name, hdr := range map[string][]byte{"VC": vch, "VC0": vc0h, "NV": nvh} {
			for off := 0; off+4 <= len(hdr); off += 4 * stride {
				for _, w := range boundary {
					m := append([]byte{}, hdr...)
					m[off], m[off+1], m[off+2], m[off+3] = byte(w), byte(w>>8), byte(w>>16), byte(w>>24)
					var content []byte
					func() {
						defer func() { recover() }() // a header the builder itself cannot carry is simply not part of the alphabet
						snd := &protocol.SenderSignatureBuilder{MemberId: c[3].ID, Signature: resign(m)}
						if name == "NV" {
							content = (&protocol.LeanhelixContentBuilder{Message: protocol.LEANHELIX_CONTENT_MESSAGE_NEW_VIEW_MESSAGE, NewViewMessage: &protocol.NewViewMessageContentBuilder{
								SignedHeader: protocol.NewViewHeaderBuilderFromRaw(m), Sender: snd, Message: protocol.PreprepareContentBuilderFromRaw(nv.Content().Message().Raw())}}).Build().Raw()
						} else {
							content = (&protocol.LeanhelixContentBuilder{Message: protocol.LEANHELIX_CONTENT_MESSAGE_VIEW_CHANGE_MESSAGE, ViewChangeMessage: &protocol.ViewChangeMessageContentBuilder{
								SignedHeader: protocol.ViewChangeHeaderBuilderFromRaw(m), Sender: snd}}).Build().Raw()
						}
					}()
					if content != nil {
						add(fmt.Sprintf("resigned-%s-%d-%x", name, off, w), content, blk)
					}
				}
			}
		}
	}
	for _, k := range []string{"PP", "P", "C", "VC", "VC0", "NV"} {
		b := bases[k]
		for l := 0; l < len(b.Content); l += stride {
			add(fmt.Sprintf("trunc-%s-%d", k, l), b.Content[:l], blk)
		}
		for off := 0; off < len(b.Content); off += stride {
			for mi, f := range []func(byte) byte{func(byte) byte { return 0 }, func(byte) byte { return 0xff }, func(x byte) byte { return x + 1 }} {
				m := append([]byte{}, b.Content...)
				m[off] = f(m[off])
				if m[off] != b.Content[off] {
					add(fmt.Sprintf("mut-%s-%d-%d", k, off, mi), m, blk)
				}
			}
		}
		// every aligned 32-bit word replaced by a boundary value (length and offset fields at every nesting level)
		for off := 0; off+4 <= len(b.Content); off += 4 * stride {
			for _, w := range []uint32{0, 0x7fffffff, 0x80000000, 0xfffffff8, 0xfffffffc, 0xfffffffd, 0xffffffff} {
				m := append([]byte{}, b.Content...)
				m[off], m[off+1], m[off+2], m[off+3] = byte(w), byte(w>>8), byte(w>>16), byte(w>>24)
				add(fmt.Sprintf("word-%s-%d-%x", k, off, w), m, blk)
			}
		}
		add("nil-block-"+k, b.Content, nil)
	}
	// structurally valid messages with extreme field values, signed by a member and by an outsider
	nums := []uint64{0, 1, 1 << 31, 1 << 32, 1<<63 - 1, 1 << 63, math.MaxUint64}
	for fi, f := range []*messagesfactory.MessageFactory{byz, out} {
		who := []string{"member", "outsider"}[fi]
		for _, h := range nums {
			for _, v := range nums {
				H, V := primitives.BlockHeight(h), primitives.View(v)
				b := kit.NewBlock(h, "X")
				add(fmt.Sprintf("field-PP-%s-h%d-v%d", who, h, v), f.CreatePreprepareMessage(H, V, b, kit.HashOf(b)).ToConsensusRawMessage().Content, b)
				add(fmt.Sprintf("field-P-%s-h%d-v%d", who, h, v), f.CreatePrepareMessage(H, V, kit.HashOf(b)).ToConsensusRawMessage().Content, nil)
				add(fmt.Sprintf("field-C-%s-h%d-v%d", who, h, v), f.CreateCommitMessage(H, V, kit.HashOf(b)).ToConsensusRawMessage().Content, nil)
				add(fmt.Sprintf("field-VC-%s-h%d-v%d", who, h, v), f.CreateViewChangeMessage(H, V, nil).ToConsensusRawMessage().Content, nil)
				pb := f.CreatePreprepareMessageContentBuilder(H, V, b, kit.HashOf(b))
				add(fmt.Sprintf("field-NV-%s-h%d-v%d", who, h, v), f.CreateNewViewMessage(H, V, pb, nil, b).ToConsensusRawMessage().Content, b)
				add(fmt.Sprintf("field-NV-noblock-%s-h%d-v%d", who, h, v), f.CreateNewViewMessage(H, V, pb, nil, nil).ToConsensusRawMessage().Content, nil)
			}
		}
	}
	// empty ids / empty proofs
	noid := messagesfactory.NewMessageFactory(kit.Instance, &kit.KeyManager{Me: nil}, nil, seed)
	add("empty-id-P", noid.CreatePrepareMessage(1, 0, hash).ToConsensusRawMessage().Content, nil)
	add("empty-id-C", noid.CreateCommitMessage(1, 0, hash).ToConsensusRawMessage().Content, nil)
	add("empty-id-VC", noid.CreateViewChangeMessage(1, 1, nil).ToConsensusRawMessage().Content, nil)
	add("empty-id-PP", noid.CreatePreprepareMessage(1, 0, blk, hash).ToConsensusRawMessage().Content, blk)
	emptyProof := &protocol.ViewChangeMessageContentBuilder{SignedHeader: &protocol.ViewChangeHeaderBuilder{MessageType: protocol.LEAN_HELIX_VIEW_CHANGE, InstanceId: kit.Instance, BlockHeight: 1, View: 1, PreparedProof: &protocol.PreparedProofBuilder{}},
		Sender: &protocol.SenderSignatureBuilder{MemberId: c[3].ID, Signature: []byte("x")}}
	add("empty-proof-VC", interfaces.NewViewChangeMessage(emptyProof.Build(), blk).ToConsensusRawMessage().Content, blk)
	r = append(r, c12input{Class: "nil-message", Nil: true, Block: "-"})
	return r
}

// one execution: boot, reach the injection point, inject, then the node must still make progress.
func c12exec(x *X, in c12input, point int) {
	n := newNode(x, 1)
	if point == 3 { // the node is not a member of the committee of height 1 (it is again from height 2 on)
		others := kit.Committee{{ID: []byte("m0"), Weight: 1}, {ID: []byte("m1"), Weight: 1}, {ID: []byte("m2"), Weight: 1}, {ID: []byte("m3"), Weight: 1}}
		n.Mem.ForHeight = func(h primitives.BlockHeight) kit.Committee {
			if h == 1 {
				return others
			}
			return n.C
		}
	}
	n.Boot()
	s := x.S
	s.NoBranch = true // default schedule only: the enumerated dimension here is the input
	msgs1 := n.peerMsgs(1, "B1")
	switch point {
	case 1: // mid-round: proposal and one PREPARE delivered
		feed(n, msgs1[:2])
		s.NoBranch = true
	case 2: // after the commit of height 1
		feed(n, msgs1)
		s.NoBranch = true
	}
	returned := false
	t := s.Thread("attacker", func() {
		n.M.HandleConsensusMessage(n.Ctx, in.raw())
		returned = true
	})
	s.Run(20000)
	if t.Panicked != "" {
		x.Bad("C12", "api-panics", "HandleConsensusMessage panicked out to the caller: %s", firstLine(t.Panicked))
	} else if !returned {
		x.Bad("C12", "api-blocks", "HandleConsensusMessage did not return; blocked=%v", s.Blocked())
	}
	for _, p := range s.Panics {
		x.Bad("C12", "panic-reached-supervisor", "a panic reached the supervising loop: %s", firstLine(p))
	}
	// the node must still work: finish the current height with the peers' valid traffic ...
	cur := uint64(1)
	if point == 2 {
		cur = 2
	}
	if point != 2 {
		feed(n, msgs1)
		s.NoBranch = true
	}
	if point == 3 {
		for _, p := range s.Panics {
			x.Bad("C12", "panic-reached-supervisor", "a panic reached the supervising loop: %s", firstLine(p))
		}
	} else if len(n.Commits) == 0 || n.Commits[0] != 1 {
		x.Bad("C12", "no-commit-after-input", "after the input the node did not commit height 1 from the peers' valid messages (commits=%v height=%d)", n.Commits, n.M.State().Height())
	}
	// ... an election ...
	v0 := uint64(n.M.State().View())
	s.NoBranch = false
	s.MaxFires = s.Fires + 1
	s.Run(20000) // the only enabled transition is the armed timer's expiry (default schedule)
	s.NoBranch = true
	if point != 3 && uint64(n.M.State().Height()) == 2 && uint64(n.M.State().View()) != v0+1 {
		x.Bad("C12", "election-dead-after-input", "after the input an election timeout no longer moves the node to the next view (view %d -> %d)", v0, n.M.State().View())
	}
	// ... a sync ...
	ok := false
	s.Thread("sync", func() {
		ok = n.M.UpdateState(n.Ctx, kit.NewBlock(2, "B2"), n.proofFor(2, "B2")) == nil
	})
	s.Run(20000)
	if !ok || uint64(n.M.State().Height()) != 3 {
		x.Bad("C12", "sync-dead-after-input", "after the input UpdateState(block 2) does not bring the node to height 3 (ok=%v height=%d)", ok, n.M.State().Height())
	}
	// ... and the next commit
	feed(n, n.peerMsgsAfter(3, "B3", n.proofFor(2, "B2")))
	if len(n.Commits) < 1 || n.Commits[len(n.Commits)-1] != 3 {
		x.Bad("C12", "no-commit-after-input", "after the input the node no longer commits (height 3 not committed; commits=%v height=%d)", n.Commits, n.M.State().Height())
	}
	_ = cur
	s.NoBranch = false
	n.Shutdown(false)
	x.Outcome = fmt.Sprintf("h=%d commits=%v panics=%d", n.M.State().Height(), n.Commits, len(s.Panics))
	_ = ref.KPP
}

type c12found struct {
	V     Violation `json:"violation"`
	Input c12input  `json:"input"`
	Point int       `json:"point"`
}

func c12shard(i, n, stride int) {
	alpha := c12alphabet(stride)
	type res struct {
		Execs    int            `json:"execs"`
		Classes  int            `json:"classes"`
		Found    []c12found     `json:"found"`
		Outcomes map[string]int `json:"outcomes"`
	}
	out := res{Outcomes: map[string]int{}}
	seen := map[string]bool{}
	k := 0
	for _, in := range alpha {
		for point := 0; point < 4; point++ {
			k++
			if k%n != i {
				continue
			}
			in, point := in, point
			sc := &Scenario{Name: "S-malformed", MaxFires: 0, Body: func(x *X) { c12exec(x, in, point) }}
			r := runOne(sc, nil, false)
			out.Execs++
			out.Outcomes[r.Outcome]++
			for _, v := range r.Viol {
				fp := v.Clause + "@" + classOf(in.Class)
				if !seen[fp] {
					seen[fp] = true
					out.Found = append(out.Found, c12found{v, in, point})
				}
			}
		}
	}
	out.Classes = len(alpha)
	emitResult(out)
}

// classOf strips offsets so that one finding per (clause, input family) is kept.
func classOf(c string) string {
	for i, ch := range c {
		if ch >= '0' && ch <= '9' {
			return c[:i]
		}
	}
	return c
}

func c12master(tier string) int {
	start := time.Now()
	stride := 1 // every offset: the whole alphabet runs in seconds
	known := map[string]string{}
	for _, k := range ev.Known("C12") {
		known[k.FP] = k.Text
	}
	workers := 16
	var mu sync.Mutex
	var wg sync.WaitGroup
	execs := 0
	var found []c12found
	outcomes := map[string]int{}
	failed := false
	for w := 0; w < workers; w++ {
		wg.Add(1)
		go func(w int) {
			defer wg.Done()
			cmd := exec.Command(os.Args[0], "-c12shard", fmt.Sprintf("%d/%d/%d", w, workers, stride))
			cmd.Env = append(os.Environ(), "GOMAXPROCS=1")
			cmd.Stderr = os.Stderr
			b, err := cmd.Output()
			mu.Lock()
			defer mu.Unlock()
			if err != nil {
				fmt.Fprintln(os.Stderr, "HARNESS ERROR: C12 worker failed:", err)
				failed = true
				return
			}
			var r struct {
				Execs    int            `json:"execs"`
				Found    []c12found     `json:"found"`
				Outcomes map[string]int `json:"outcomes"`
			}
			if json.Unmarshal(resultLine(b), &r) != nil {
				failed = true
				return
			}
			execs += r.Execs
			found = append(found, r.Found...)
			for o, c := range r.Outcomes {
				outcomes[o] += c
			}
		}(w)
	}
	wg.Wait()
	if failed {
		return 2
	}
	alpha := c12alphabet(stride)
	evd := ev.New("C12", tier)
	evd.Coverage["evaluations"] = execs
	evd.Coverage["states"] = execs
	evd.Coverage["transitions"] = execs
	evd.Coverage["traces_validated_against_impl"] = execs
	evd.Coverage["distinct_nontrivial"] = len(alpha)
	evd.Coverage["rule"] = fmt.Sprintf("input alphabet (nil/empty content, union tags 0..7, truncations and offset x {0x00,0xFF,+1} mutations of one base message per type incl. a NEW_VIEW with proofs at stride %d, nil blocks, member- and outsider-signed messages with heights/views in {0,1,2^31,2^32,2^63-1,2^63,2^64-1}, empty ids, empty proof) x injection point {idle, mid-round, after commit, while the node is outside the committee}; each case is one execution of the real instrumented MainLoop under the default schedule; afterwards the peers' valid traffic, one election timeout, one UpdateState and a further commit must still work. distinct_nontrivial = inputs in the alphabet", stride)
	evd.Coverage["samples"] = []interface{}{alpha[0], alpha[len(alpha)/3], alpha[len(alpha)-2]}
	evd.Coverage["exhaustive"] = true
	evd.Coverage["distinct_outcomes"] = len(outcomes)
	evd.Coverage["stride"] = stride
	evd.Assumptions = []string{"default schedule only (the enumerated dimension is the input and the injection point)", "adversary holds one member key and one outsider key"}
	sort.Slice(found, func(i, j int) bool { return found[i].V.Clause+found[i].Input.Class < found[j].V.Clause+found[j].Input.Class })
	var printed []string
	knownHit := map[string]bool{}
	seen := map[string]bool{}
	for _, f := range found {
		fp := "E2:S-malformed:" + f.V.Clause + "@" + classOf(f.Input.Class)
		if _, ok := known[fp]; ok {
			knownHit[fp] = true
			continue
		}
		if seen[fp] {
			continue
		}
		seen[fp] = true
		path := ev.ReplayPath("C12", sanitize(f.V.Clause+"-"+f.Input.Class+fmt.Sprintf("-p%d", f.Point)))
		b, _ := json.MarshalIndent(map[string]interface{}{"property": "C12", "engine": "vsched", "scenario": "S-malformed", "violation": f.V, "input": f.Input, "point": f.Point}, "", " ")
		os.WriteFile(path, b, 0644)
		fmt.Fprintf(os.Stderr, "  %s point %d: %s: %s\n", f.Input.Class, f.Point, f.V.Clause, f.V.Detail)
		printed = append(printed, fmt.Sprintf("VIOLATION property=C12 replay=%s", path))
	}
	evd.Violations = len(printed)
	evd.Write(start)
	fmt.Fprintf(os.Stderr, "S-malformed: inputs=%d execs=%d outcomes=%d %.1fs\n", len(alpha), execs, len(outcomes), time.Since(start).Seconds())
	for fp := range knownHit {
		fmt.Printf("KNOWN-FINDING: property=C12 %s\n", known[fp])
	}
	for _, p := range printed {
		fmt.Println(p)
	}
	if len(printed) > 0 {
		return 1
	}
	return 0
}

func c12replay(path string) int {
	b, err := os.ReadFile(path)
	if err != nil {
		return 2
	}
	var rf struct {
		Violation Violation `json:"violation"`
		Input     c12input  `json:"input"`
		Point     int       `json:"point"`
	}
	if json.Unmarshal(b, &rf) != nil {
		return 2
	}
	sc := &Scenario{Name: "S-malformed", Body: func(x *X) { c12exec(x, rf.Input, rf.Point) }}
	r := runOne(sc, nil, true)
	hit := false
	for _, v := range r.Viol {
		fmt.Printf("violation: %s %s: %s\n", v.Prop, v.Clause, v.Detail)
		if v.Clause == rf.Violation.Clause {
			hit = true
		}
	}
	fmt.Println("outcome:", r.Outcome)
	if hit {
		fmt.Printf("VIOLATION property=C12 replay=%s\n", path)
		return 1
	}
	return 0
}
