package main

import (
	"fmt"
	"strings"
	"time"

	"verif/kit"
	"verif/ref"
	"verif/vs"

	"github.com/orbs-network/lean-helix-go/services/interfaces"
	"github.com/orbs-network/lean-helix-go/spec/types/go/primitives"
	"github.com/orbs-network/lean-helix-go/state"
)

type sample struct{ h, v uint64 }

func checkSamples(x *X, ss []sample) {
	for i := 1; i < len(ss); i++ {
		a, b := ss[i-1], ss[i]
		if b.h < a.h || b.h == a.h && b.v < a.v {
			x.Bad("C13", "state-decreased", "observed (height,view) %v then %v", a, b)
		}
	}
}

// feed delivers messages in a deterministic (non-branching) phase.
func feed(n *Node, msgs []*interfaces.ConsensusRawMessage) {
	s := n.x.S
	s.NoBranch = true
	s.Thread("prefeed", func() {
		for _, m := range msgs {
			n.M.HandleConsensusMessage(n.Ctx, m)
		}
	})
	s.Run(20000)
	s.NoBranch = false
}

func observer(n *Node, ss *[]sample, k int) {
	n.x.S.Thread("observer", func() {
		for i := 0; i < k; i++ {
			hv := n.M.State().HeightView()
			*ss = append(*ss, sample{uint64(hv.Height()), uint64(hv.View())})
		}
	})
}

func finish(x *X, n *Node, ss []sample, extra string) {
	s := x.S
	checkSamples(x, ss)
	n.CommonChecks()
	h := uint64(n.M.State().Height())
	v := uint64(n.M.State().View())
	blocked := len(s.Blocked())
	// C19/C05: a running node that has gone quiet outside every SPI call is waiting for messages or for its timeout;
	// if no election timer is armed (and no trigger is in flight, since nothing is enabled), the timeout of the
	// position it sits in can never arrive any more.
	// C15: a worker that waits inside an SPI call on a context nobody will ever cancel stalls the node: if everything
	// has gone quiet, the call has not returned, its context is live and no election timer is armed, only a sync or
	// shutdown could still release it.
	if n.Ctx.Err() == nil && n.InSPI > 0 && len(s.Panics) == 0 && s.Quiescent() && s.ArmedTimers() == 0 {
		for _, c := range n.SpiCalls {
			if !c.Returned && c.Ctx.Err() == nil && c.Kind != "commit" {
				x.Bad("C15", "spi-call-stalls-node", "%s(h%d) waits on a live context while the node sits in (h%d,v%d) with no election timer armed and nothing in flight: no election trigger can release it any more (events %v)", c.Kind, c.Height, h, v, tail(n.Events, 8))
			}
		}
	}
	if n.Ctx.Err() == nil && n.InSPI == 0 && len(s.Panics) == 0 && s.Quiescent() && s.ArmedTimers() == 0 && h > 0 {
		x.Bad("C19", "quiescent-without-timer", "the node sits in (h%d,v%d) with nothing left to run, no election timer armed and no trigger in flight: the timeout of this position is lost (events %v)", h, v, tail(n.Events, 8))
	}
	n.Shutdown(true)
	for _, e := range s.Errors {
		x.Bad("HARNESS", "assumption", "%s", e)
	}
	for _, p := range s.Panics {
		x.Bad("C12", "panic-reached-supervisor", "a panic reached the supervising loop: %s", firstLine(p))
	}
	x.Outcome = fmt.Sprintf("h=%d v=%d commits=%v rounds=%v can=%v fires=%d sent=%d blocked=%d %s", h, v, n.Commits, n.Rounds, n.RoundCan, s.Fires, len(n.Sent), blocked, extra)
}

func firstLine(s string) string {
	s = strings.TrimSpace(s)
	if i := strings.Index(s, "\n"); i >= 0 {
		return s[:i]
	}
	return s
}

// withCancel registers the scenario and a "+cancel" twin whose extra thread cancels the Run context; the
// explorer places that single step at every scheduling point (crash-point enumeration, C16).
func registerBoth(name string, props []string, fires int, qb, tb int, body func(x *X, cancel bool)) {
	register(&Scenario{Name: name, Props: props, MaxFires: fires, Horizon: 20000, Body: func(x *X) { body(x, false) }})
	quickBound[name], thoroughBound[name] = qb, tb
	cn := name + "+cancel"
	register(&Scenario{Name: cn, Props: []string{"C16"}, MaxFires: fires, Horizon: 20000, Body: func(x *X) { body(x, true) }})
	quickBound[cn], thoroughBound[cn] = qb-1, tb-1 // the extra thread multiplies the schedules
}

func addCancel(n *Node, cancel bool) {
	if cancel {
		n.x.S.Thread("cancel", func() { n.Cancel() })
	}
}

func init() {
	// S-commit: follower (member 1) receives the peers' height-1 traffic; the last two COMMITs race with an observer.
	registerBoth("S-commit", []string{"C13"}, 1, 3, 4, func(x *X, cancel bool) {
		n := newNode(x, 1)
		n.Boot()
		msgs := n.peerMsgs(1, "B1")
		feed(n, msgs[:4])
		s := x.S
		fed := 0
		s.Thread("feeder", func() {
			for _, m := range msgs[4:] {
				n.M.HandleConsensusMessage(n.Ctx, m)
				fed++
			}
		})
		var ss []sample
		observer(n, &ss, 2)
		addCancel(n, cancel)
		if !s.Run(20000) {
			x.Bad("C16", "livelock", "step horizon reached")
		}
		if fed != len(msgs[4:]) && !cancel {
			x.Bad("C12", "api-blocked", "HandleConsensusMessage blocked forever: %v", s.Blocked())
		}
		if !cancel && s.Fires == 0 && len(n.Commits) != 1 {
			x.Bad("C05", "no-commit", "all messages delivered, no timeout, but commits=%v", n.Commits)
		}
		finish(x, n, ss, "")
	})

	// S-commits-before-proposal: the follower is shown the three COMMITs of height 1 FIRST (the PREPAREs are lost), the
	// PREPREPARE LAST, then the same for height 2 (whose messages may sit in the future cache while height 1 is open). The
	// commit happens inside the handler of the proposal; the next round must start after it, callbacks stay ordered, and
	// with every message delivered and no expiry both heights are decided (C11: COMMITs count whenever they arrive).
	registerBoth("S-commits-before-proposal", []string{"C11", "C13"}, 1, 2, 3, func(x *X, cancel bool) {
		n := newNode(x, 1)
		n.Boot()
		m1, m2 := n.peerMsgs(1, "B1"), n.peerMsgs(2, "B2") // [PP, P, C, C, C]
		order := func(m []*interfaces.ConsensusRawMessage) []*interfaces.ConsensusRawMessage {
			k := len(m)
			return []*interfaces.ConsensusRawMessage{m[k-3], m[k-2], m[k-1], m[0]}
		}
		s := x.S
		fed := 0
		s.Thread("feeder", func() {
			for _, m := range append(order(m1), order(m2)...) {
				n.M.HandleConsensusMessage(n.Ctx, m)
				fed++
			}
		})
		var ss []sample
		observer(n, &ss, 2)
		addCancel(n, cancel)
		if !s.Run(20000) {
			x.Bad("C16", "livelock", "step horizon reached")
		}
		if !cancel && fed == 8 && s.Fires == 0 && s.Quiescent() && len(n.Commits) != 2 {
			x.Bad("C11", "commit-quorum-not-acted-upon", "the proposal and three COMMITs of heights 1 and 2 were delivered (COMMITs first), no timeout: commits=%v (events %v)", n.Commits, tail(n.Events, 10))
		}
		finish(x, n, ss, "")
	})

	// S-heavy-leader: weights 7,1,1,1: the node under test is the first leader and a quorum by itself, so it decides a
	// height inside the very step that proposes it (inside the construction of that height's term) and goes on to the
	// next height at once. The consumer's commit callback fails at height 3, which ends the chain. Then the light
	// leader's traffic for... nothing else is needed: callbacks must be ordered (round h before commit h, strictly
	// increasing), the node must sit in height 3 with a live term (its election timer armed), and shut down cleanly.
	registerBoth("S-heavy-leader", []string{"C13"}, 1, 3, 4, func(x *X, cancel bool) {
		n := newNodeC(x, 0, kit.WeightedCommittee(7, 1, 1, 1))
		n.CommitErrAt[3] = true
		n.Boot()
		s := x.S
		var ss []sample
		observer(n, &ss, 2)
		addCancel(n, cancel)
		if !s.Run(20000) {
			x.Bad("C16", "livelock", "step horizon reached")
		}
		if !cancel {
			if len(n.Commits) != 2 || n.Commits[0] != 1 || n.Commits[1] != 2 {
				x.Bad("C05", "no-commit", "a leader that is a quorum by itself should have committed heights 1 and 2 (the consumer refuses 3): commits=%v events=%v", n.Commits, tail(n.Events, 10))
			}
			// every committed height was announced by a new-round callback before its commit
			seenRound := map[uint64]bool{}
			for _, e := range n.Events {
				var h uint64
				var b bool
				if _, err := fmt.Sscanf(e, "round(h%d,can=%t)", &h, &b); err == nil {
					seenRound[h] = true
				}
				if strings.HasPrefix(e, "commit(h") && !strings.Contains(e, "error") {
					fmt.Sscanf(e, "commit(h%d", &h)
					if !seenRound[h] {
						x.Bad("C13", "commit-before-its-round", "height %d was committed before any new-round callback announced it: %v", h, n.Events)
					}
				}
			}
		}
		finish(x, n, ss, "")
	})

	// S-cached-next-height: the follower already holds the peers' complete traffic of height 2 in its future cache when
	// the last COMMITs of height 1 arrive: committing height 1 starts height 2, whose cached messages decide it inside
	// the same step (re-entrant drain). Callback order and heights must stay strictly increasing (C13), both commits happen.
	registerBoth("S-cached-next-height", []string{"C13"}, 1, 3, 4, func(x *X, cancel bool) {
		n := newNode(x, 1)
		n.Boot()
		feed(n, n.peerMsgs(2, "B2")) // all cached: the node is at height 1
		msgs := n.peerMsgs(1, "B1")
		feed(n, msgs[:4])
		s := x.S
		s.Thread("feeder", func() {
			for _, m := range msgs[4:] {
				n.M.HandleConsensusMessage(n.Ctx, m)
			}
		})
		var ss []sample
		observer(n, &ss, 2)
		addCancel(n, cancel)
		if !s.Run(20000) {
			x.Bad("C16", "livelock", "step horizon reached")
		}
		if !cancel && s.Fires == 0 && len(n.Commits) != 2 {
			x.Bad("C05", "no-commit", "all messages of heights 1 and 2 delivered, no timeout, but commits=%v", n.Commits)
		}
		finish(x, n, ss, "")
	})

	// S-commit-vs-sync: the committing COMMIT races with UpdateState calls of equal, older and newer heights.
	registerBoth("S-commit-vs-sync", []string{"C13", "C14"}, 0, 3, 4, func(x *X, cancel bool) {
		n := newNode(x, 1)
		n.Boot()
		msgs := n.peerMsgs(1, "B1")
		feed(n, msgs[:5])
		s := x.S
		s.Thread("feeder", func() { n.M.HandleConsensusMessage(n.Ctx, msgs[5]) })
		var errs []string
		s.Thread("sync-equal", func() {
			if err := n.M.UpdateState(n.Ctx, kit.NewBlock(1, "B1"), n.proofFor(1, "B1")); err != nil {
				errs = append(errs, "equal:"+err.Error())
			}
		})
		returned := 0
		s.Thread("sync-old-new", func() {
			if err := n.M.UpdateState(n.Ctx, nil, nil); err != nil {
				errs = append(errs, "old:"+err.Error())
			}
			returned++
			if err := n.M.UpdateState(n.Ctx, kit.NewBlock(2, "B2"), n.proofFor(2, "B2")); err != nil {
				errs = append(errs, "new:"+err.Error())
			}
			returned++
		})
		var ss []sample
		observer(n, &ss, 2)
		addCancel(n, cancel)
		if !s.Run(20000) {
			x.Bad("C16", "livelock", "step horizon reached")
		}
		if !cancel {
			if returned != 2 || len(errs) > 0 {
				x.Bad("C14", "updatestate-blocked-or-failed", "UpdateState calls returned=%d errors=%v blocked=%v", returned, errs, s.Blocked())
			}
			if h := uint64(n.M.State().Height()); h != 3 {
				x.Bad("C14", "newest-sync-not-effective", "UpdateState(block 2) returned nil but the node ends at height %d (events %v)", h, n.Events)
			}
			checkSyncRounds(x, n)
		}
		finish(x, n, ss, "")
	})

	// S-sync-burst: UpdateState bursts from two threads while the worker is inside a ValidateBlockProposal
	// that only returns when its context is cancelled.
	registerBoth("S-sync-burst", []string{"C14", "C15"}, 0, 3, 4, func(x *X, cancel bool) {
		n := newNode(x, 1)
		n.BlockVal[1] = true
		n.Boot()
		msgs := n.peerMsgs(1, "B1")
		feed(n, msgs[:1]) // PREPREPARE: the worker is now stuck in the consumer's validator
		s := x.S
		returned := 0
		s.Thread("sync-a", func() {
			n.M.UpdateState(n.Ctx, kit.NewBlock(3, "B3"), n.proofFor(3, "B3"))
			returned++
			n.M.UpdateState(n.Ctx, kit.NewBlock(1, "B1"), n.proofFor(1, "B1"))
			returned++
		})
		s.Thread("sync-b", func() {
			n.M.UpdateState(n.Ctx, kit.NewBlock(5, "B5"), n.proofFor(5, "B5"))
			returned++
			n.M.UpdateState(n.Ctx, kit.NewBlock(4, "B4"), n.proofFor(4, "B4"))
			returned++
		})
		addCancel(n, cancel)
		if !s.Run(20000) {
			x.Bad("C16", "livelock", "step horizon reached")
		}
		if !cancel {
			if returned != 4 {
				x.Bad("C14", "updatestate-blocked-or-failed", "only %d of 4 UpdateState calls returned; blocked=%v", returned, s.Blocked())
			}
			if h := uint64(n.M.State().Height()); h != 6 {
				x.Bad("C14", "newest-sync-not-effective", "UpdateState(block 5) returned nil but the node ends at height %d (events %v)", h, n.Events)
			}
			for _, c := range n.SpiCalls {
				if !c.Returned {
					x.Bad("C15", "spi-not-released", "%s(h%d) is still blocked although the node was told to leave that height", c.Kind, c.Height)
				}
			}
			checkSyncRounds(x, n)
		}
		finish(x, n, nil, "")
	})

	// S-sync-burst-held: the leader's worker is held inside a slow RequestNewBlockProposal that ignores its context
	// (only the harness lets it go). Three accepted syncs of increasing heights arrive from one thread, a fourth from
	// another; the slow call is released only AFTER they have all returned: UpdateState must never wait for the worker
	// (each newer sync replaces the pending one in the one-slot hand-off). Ends above the newest block.
	registerBoth("S-sync-burst-held", []string{"C14", "C15"}, 1, 3, 4, func(x *X, cancel bool) {
		n := newNode(x, 0)
		hold := make(chan struct{})
		n.HoldReq[1] = hold
		n.Boot()
		s := x.S
		returned := 0
		s.Thread("sync-a", func() {
			for _, h := range []uint64{2, 4, 6} {
				n.M.UpdateState(n.Ctx, kit.NewBlock(h, fmt.Sprintf("B%d", h)), n.proofFor(h, fmt.Sprintf("B%d", h)))
				returned++
			}
			vs.Closed(hold)
			close(hold) // the consumer's slow call comes back only now
		})
		s.Thread("sync-b", func() {
			n.M.UpdateState(n.Ctx, kit.NewBlock(5, "B5"), n.proofFor(5, "B5"))
			returned++
		})
		addCancel(n, cancel)
		if !s.Run(20000) {
			x.Bad("C16", "livelock", "step horizon reached")
		}
		if !cancel {
			if returned != 4 {
				x.Bad("C14", "updatestate-blocked-or-failed", "only %d of 4 UpdateState calls returned while the worker is inside a slow SPI call; blocked=%v", returned, s.Blocked())
			} else if h := uint64(n.M.State().Height()); h != 7 {
				x.Bad("C14", "newest-sync-not-effective", "UpdateState(block 6) returned nil but the node ends at height %d (events %v)", h, tail(n.Events, 8))
			}
			checkSyncRounds(x, n)
		}
		finish(x, n, nil, "")
	})

	// S-blocked-leader: the node leads (h1,v0); RequestNewBlockProposal waits for its context. An election
	// timeout or a sync must release it, and the late result must not be broadcast.
	registerBoth("S-blocked-leader", []string{"C15", "C14"}, 1, 3, 4, func(x *X, cancel bool) {
		n := newNode(x, 0)
		n.BlockReq[1] = true
		n.Boot()
		s := x.S
		synced := false
		s.Thread("sync", func() {
			n.M.UpdateState(n.Ctx, kit.NewBlock(1, "B1"), n.proofFor(1, "B1"))
			synced = true
		})
		addCancel(n, cancel)
		if !s.Run(20000) {
			x.Bad("C16", "livelock", "step horizon reached")
		}
		if !cancel {
			if !synced {
				x.Bad("C14", "updatestate-blocked-or-failed", "UpdateState did not return while the worker sits in RequestNewBlockProposal; blocked=%v", s.Blocked())
			}
			for _, c := range n.SpiCalls {
				if !c.Returned && c.Height == 1 {
					x.Bad("C15", "spi-not-released", "%s(h%d) still blocked after a sync to a higher height (and %d timer expiries)", c.Kind, c.Height, s.Fires)
				}
			}
			if h := uint64(n.M.State().Height()); h != 2 {
				x.Bad("C14", "newest-sync-not-effective", "UpdateState(block 1) returned nil but the node ends at height %d", h)
			}
			checkSyncRounds(x, n)
		}
		finish(x, n, nil, "")
	})

	// S-election-vs-votes: member 1 leads view 1. Its own election timeout races with the peers' VIEW_CHANGE
	// votes for view 1 and a stale-view PREPARE.
	registerBoth("S-election-vs-votes", []string{"C13", "C19", "C15"}, 2, 3, 4, func(x *X, cancel bool) {
		n := newNode(x, 1)
		n.Boot()
		s := x.S
		votesIn := false
		v0 := n.fac(0, nil).CreateViewChangeMessage(1, 1, nil).ToConsensusRawMessage()
		v2 := n.fac(2, nil).CreateViewChangeMessage(1, 1, nil).ToConsensusRawMessage()
		v3 := n.fac(3, nil).CreateViewChangeMessage(1, 1, nil).ToConsensusRawMessage()
		s.Thread("voters", func() {
			// three votes: a quorum without the node's own vote, so it can be elected BEFORE its own timeout (view jump)
			n.M.HandleConsensusMessage(n.Ctx, v2)
			n.M.HandleConsensusMessage(n.Ctx, v3)
			n.M.HandleConsensusMessage(n.Ctx, v0)
			votesIn = true
		})
		var ss []sample
		observer(n, &ss, 2)
		addCancel(n, cancel)
		if !s.Run(20000) {
			x.Bad("C16", "livelock", "step horizon reached")
		}
		nv := 0
		for _, i := range n.Sent {
			if i.Kind == ref.KNV && i.Hdr.View == 1 {
				nv++
			}
		}
		if nv > 1 {
			x.Bad("C10", "two-newviews", "%d NEW_VIEW messages for view 1", nv)
		}
		// the view can only advance from k to k+1 by an expiry of a timer armed for view k (duration base*2^k),
		// or from 0 to 1 by the quorum of votes (election before the own timeout)
		firedFor := map[uint64]int{}
		for _, t := range s.Timers {
			if t.Fired {
				for k := uint64(0); k < 8; k++ {
					if t.D == time.Second<<k {
						firedFor[k]++
					}
				}
			}
		}
		reach := uint64(0)
		if firedFor[0] > 0 || nv > 0 || votesIn {
			reach = 1
		}
		for firedFor[reach] > 0 && reach >= 1 {
			reach++
		}
		if v := uint64(n.M.State().View()); v > reach {
			x.Bad("C19", "view-advanced-without-expiry", "view is %d, but the expired timers (by view: %v) and the election by votes (%d NEW_VIEW) only justify view %d", v, firedFor, nv, reach)
		}
		if !cancel && s.Fires >= 1 && nv == 0 && uint64(n.M.State().View()) == 1 {
			x.Bad("C05", "elected-leader-silent", "member 1 timed out into view 1, received both votes, but sent no NEW_VIEW (events %v)", n.Events)
		}
		finish(x, n, ss, fmt.Sprintf("nv=%d", nv))
	})

	// S-elected-blocked: member 1 is elected leader of view 1 by three votes and then sits in RequestNewBlockProposal,
	// which only returns on cancellation. ONE timer expiry is allowed: either the (h1,v0) timer fires before the election
	// (its trigger may reach the main loop after the node has moved to view 1: stale, must change nothing), or the
	// (h1,v1) timer fires afterwards (legitimately cancels the call). The context of the current position must not be
	// cancelled by the stale trigger of the older view (C15 third clause; C19 "no trigger of the old pair is acted upon").
	registerBoth("S-elected-blocked", []string{"C15", "C19"}, 1, 3, 4, func(x *X, cancel bool) {
		n := newNode(x, 1)
		n.BlockReq[1] = true
		n.Boot()
		s := x.S
		v0 := n.fac(0, nil).CreateViewChangeMessage(1, 1, nil).ToConsensusRawMessage()
		v2 := n.fac(2, nil).CreateViewChangeMessage(1, 1, nil).ToConsensusRawMessage()
		v3 := n.fac(3, nil).CreateViewChangeMessage(1, 1, nil).ToConsensusRawMessage()
		s.Thread("voters", func() {
			n.M.HandleConsensusMessage(n.Ctx, v2)
			n.M.HandleConsensusMessage(n.Ctx, v3)
			n.M.HandleConsensusMessage(n.Ctx, v0)
		})
		addCancel(n, cancel)
		if !s.Run(20000) {
			x.Bad("C16", "livelock", "step horizon reached")
		}
		if !cancel {
			firedV1 := false
			for _, t := range s.Timers {
				if t.Fired && t.D == 2*time.Second {
					firedV1 = true
				}
			}
			for _, c := range n.SpiCalls {
				if c.Kind == "request" && c.Height == 1 && c.Ctx.Err() != nil && !firedV1 {
					x.Bad("C15", "current-context-cancelled-by-stale-event", "the context of RequestNewBlockProposal(h1,v1) was cancelled although the only timer that expired is the one of the superseded pair (h1,v0) (events %v)", tail(n.Events, 8))
					x.Bad("C19", "stale-trigger-acted-upon", "the trigger of the superseded pair (h1,v0) cancelled the proposal of view 1 (events %v)", tail(n.Events, 8))
				}
			}
			if v := uint64(n.M.State().View()); v > 1 && !firedV1 {
				x.Bad("C19", "view-advanced-without-expiry", "view is %d although the (h1,v1) timer never expired", v)
			}
		}
		finish(x, n, nil, "")
	})

	// S-commit-error: the consumer's commit callback fails; the node must stay at its height, keep its state
	// consistent and commit again when asked to sync.
	registerBoth("S-commit-error", []string{"C13"}, 1, 3, 4, func(x *X, cancel bool) {
		n := newNode(x, 1)
		n.CommitErrAt[1] = true
		n.Boot()
		msgs := n.peerMsgs(1, "B1")
		feed(n, msgs[:5])
		s := x.S
		s.Thread("feeder", func() { n.M.HandleConsensusMessage(n.Ctx, msgs[5]) })
		s.Thread("sync", func() { n.M.UpdateState(n.Ctx, kit.NewBlock(1, "B1"), n.proofFor(1, "B1")) })
		var ss []sample
		observer(n, &ss, 2)
		addCancel(n, cancel)
		if !s.Run(20000) {
			x.Bad("C16", "livelock", "step horizon reached")
		}
		if !cancel {
			if h := uint64(n.M.State().Height()); h != 2 {
				x.Bad("C14", "newest-sync-not-effective", "after a failed commit callback and UpdateState(block 1) the node is at height %d", h)
			}
		}
		finish(x, n, ss, "")
	})

	// S-committee-unavailable: RequestOrderedCommittee of height 1 keeps failing while its context lives (the
	// polling loop of the term constructor). A sync to a higher height, or shutdown, must get the worker out.
	// "-same": the sync delivers exactly the block of the height being decided (the lowest sync that must still get the worker out).
	for _, syncTo := range []uint64{3, 1} {
		syncTo := syncTo
		cuName := "S-committee-unavailable"
		if syncTo == 1 {
			cuName += "-same"
		}
		registerBoth(cuName, []string{"C14", "C15"}, 0, 3, 4, func(x *X, cancel bool) {
			n := newNode(x, 1)
			n.BlockCommittee[1] = true
			n.Boot()
			s := x.S
			synced := false
			s.Thread("sync", func() {
				n.M.UpdateState(n.Ctx, kit.NewBlock(syncTo, fmt.Sprintf("B%d", syncTo)), n.proofFor(syncTo, fmt.Sprintf("B%d", syncTo)))
				synced = true
			})
			addCancel(n, cancel)
			if !s.Run(6000) {
				x.Bad("C16", "livelock", "step horizon reached: the worker spins (events %v)", tail(n.Events, 6))
			}
			if !cancel {
				if !synced {
					x.Bad("C14", "updatestate-blocked-or-failed", "UpdateState did not return; blocked=%v", s.Blocked())
				}
				if h := uint64(n.M.State().Height()); h != syncTo+1 {
					x.Bad("C14", "newest-sync-not-effective", "UpdateState(block %d) returned nil but the node ends at height %d (events %v)", syncTo, h, tail(n.Events, 8))
				}
				for _, c := range n.SpiCalls {
					if !c.Returned {
						x.Bad("C15", "spi-not-released", "%s(h%d) is still blocked although a sync to block %d was accepted", c.Kind, c.Height, syncTo)
					}
				}
			}
			finish(x, n, nil, "")
		})
	}

	// S-stale-events: the node leads (h1,v0) and sits in RequestNewBlockProposal; only STALE events arrive (a repeated
	// genesis sync, messages of a past height). The context of the current position must stay live: the call
	// must still be waiting at quiescence, and nothing may restart the round (C15 third clause, C14 stale syncs).
	registerBoth("S-stale-events", []string{"C15", "C14"}, 0, 3, 4, func(x *X, cancel bool) {
		n := newNode(x, 0)
		n.BlockReq[1] = true
		n.Boot()
		s := x.S
		done := 0
		s.Thread("stale-sync", func() {
			n.M.UpdateState(n.Ctx, nil, nil)
			done++
			n.M.UpdateState(n.Ctx, nil, nil)
			done++
		})
		old := n.peerMsgsAfter(0, "OLD", nil)
		s.Thread("stale-msgs", func() {
			n.M.HandleConsensusMessage(n.Ctx, old[0])
			n.M.HandleConsensusMessage(n.Ctx, old[1])
		})
		addCancel(n, cancel)
		if !s.Run(20000) {
			x.Bad("C16", "livelock", "step horizon reached")
		}
		if !cancel {
			if done != 2 {
				x.Bad("C14", "updatestate-blocked-or-failed", "stale UpdateState calls did not return (%d of 2); blocked=%v", done, s.Blocked())
			}
			for _, c := range n.SpiCalls {
				if c.Kind == "request" && c.Height == 1 && (c.Returned || c.Ctx.Err() != nil) {
					x.Bad("C15", "current-context-cancelled-by-stale-event", "the context of RequestNewBlockProposal(h1,v0) was cancelled although only stale syncs and past-height messages arrived (events %v)", tail(n.Events, 6))
				}
			}
			if len(n.Rounds) > 1 { // (the round-1 callback itself only fires once the blocked term constructor returns)
				x.Bad("C14", "stale-sync-changed-state", "stale syncs restarted the round: new-round callbacks %v", n.Rounds)
			}
		}
		finish(x, n, nil, "")
	})

	// S-validate-vs-election: the follower's worker sits in ValidateBlockProposal of (h1,v0) when the election timer
	// fires: the main loop must cancel that context, the late validation result must not produce a PREPARE in view 0,
	// and the node must move to view 1 (C15, C19).
	registerBoth("S-validate-vs-election", []string{"C15", "C19"}, 1, 3, 4, func(x *X, cancel bool) {
		n := newNode(x, 2)
		n.BlockVal[1] = true
		n.Boot()
		msgs := n.peerMsgs(1, "B1")
		feed(n, msgs[:1])
		s := x.S
		late := n.peerMsgs(1, "B1")[1:]
		s.Thread("feeder", func() {
			for _, m := range late[:2] {
				n.M.HandleConsensusMessage(n.Ctx, m)
			}
		})
		addCancel(n, cancel)
		if !s.Run(20000) {
			x.Bad("C16", "livelock", "step horizon reached")
		}
		if !cancel && s.Fires >= 1 {
			for _, c := range n.SpiCalls {
				if c.Kind == "validate" && !c.Returned {
					x.Bad("C15", "spi-not-released", "ValidateBlockProposal(h1) still blocked after the election timeout of its view fired")
				}
			}
			if v := uint64(n.M.State().View()); v != 1 {
				x.Bad("C19", "trigger-lost", "the election timer of (h1,v0) expired but the node is in view %d (events %v)", v, tail(n.Events, 6))
			}
		}
		finish(x, n, nil, "")
	})

	// S-validate-ahead-{nv,pp}: the follower receives a proposal for a view AHEAD of its own while its consumer's
	// validator waits on the context it is given: "nv" = an ordinary NEW_VIEW for view 1 (correct leader, three genuine
	// votes) reaching a node that is still in view 0; "pp" = a stand-alone PREPREPARE for view 5 from that view's
	// leader. The node's (h1,v0) timer then expires. Whatever context the validator got must be cancelled by then or
	// by a later timer: the call must not wait for ever (C15), the node must go on to time out (C19).
	// "nv2" = a NEW_VIEW TWO views ahead (view 2: leader member 2 is the node itself, so view 3 led by member 3 is used):
	// whatever view the node has reached by then, the validation must run under a context some armed timer cancels.
	for _, kind := range []string{"nv", "pp", "nv2"} {
		kind := kind
		registerBoth("S-validate-ahead-"+kind, []string{"C15", "C19"}, 2, 3, 4, func(x *X, cancel bool) {
			n := newNode(x, 2)
			n.BlockVal[1] = true
			n.Boot()
			s := x.S
			blk := kit.NewBlock(1, "B1")
			var msg *interfaces.ConsensusRawMessage
			if kind == "nv" || kind == "nv2" {
				nvView, leader := primitives.View(1), 1
				if kind == "nv2" {
					nvView, leader = 3, 3
				}
				var votes []*interfaces.ViewChangeMessage
				for _, i := range []int{0, 1, 3} {
					votes = append(votes, n.fac(i, nil).CreateViewChangeMessage(1, nvView, nil))
				}
				f := n.fac(leader, nil)
				ppb := f.CreatePreprepareMessageContentBuilder(1, nvView, blk, kit.HashOf(blk))
				msg = f.CreateNewViewMessage(1, nvView, ppb, interfaces.ExtractConfirmationsFromViewChangeMessages(votes), blk).ToConsensusRawMessage()
			} else {
				msg = n.fac(1, nil).CreatePreprepareMessage(1, 5, blk, kit.HashOf(blk)).ToConsensusRawMessage()
			}
			s.Thread("feeder", func() { n.M.HandleConsensusMessage(n.Ctx, msg) })
			addCancel(n, cancel)
			if !s.Run(20000) {
				x.Bad("C16", "livelock", "step horizon reached")
			}
			finish(x, n, nil, "")
		})
	}

	// S-newview-vs-election: the follower is in (h1,v0); the correct leader's NEW_VIEW for view 1 (three genuine votes, a
	// fresh block, an ordinary validator) races the expiry of the node's own (h1,v0) timer. Only ONE expiry is allowed, so
	// the node's view never exceeds 1: in every schedule the NEW_VIEW reaches a member "whose view is not higher and that
	// has not yet accepted a proposal for that view" and must be adopted (C11): a PREPARE for view 1 goes out, whether
	// the main loop has already timed view 0 out, is doing so during the validation, or does so afterwards.
	registerBoth("S-newview-vs-election", []string{"C11", "C15", "C19"}, 1, 3, 4, func(x *X, cancel bool) {
		n := newNode(x, 2)
		n.Boot()
		s := x.S
		blk := kit.NewBlock(1, "B1")
		var votes []*interfaces.ViewChangeMessage
		for _, i := range []int{0, 1, 3} {
			votes = append(votes, n.fac(i, nil).CreateViewChangeMessage(1, 1, nil))
		}
		f := n.fac(1, nil)
		ppb := f.CreatePreprepareMessageContentBuilder(1, 1, blk, kit.HashOf(blk))
		msg := f.CreateNewViewMessage(1, 1, ppb, interfaces.ExtractConfirmationsFromViewChangeMessages(votes), blk).ToConsensusRawMessage()
		delivered := false
		s.Thread("feeder", func() {
			n.M.HandleConsensusMessage(n.Ctx, msg)
			delivered = true
		})
		var ss []sample
		observer(n, &ss, 2)
		addCancel(n, cancel)
		if !s.Run(20000) {
			x.Bad("C16", "livelock", "step horizon reached")
		}
		if !cancel && delivered && s.Quiescent() {
			prepared := false
			for _, i := range n.Sent {
				if i.Kind == ref.KP && i.Hdr.View == 1 {
					prepared = true
				}
			}
			if !prepared {
				x.Bad("C11", "newview-lost-to-own-timeout", "the correct leader's NEW_VIEW for view 1 reached the node while its view was not higher (final view %d, %d expiries) but was not adopted: no PREPARE for view 1 (events %v)", n.M.State().View(), s.Fires, tail(n.Events, 8))
			}
		}
		finish(x, n, ss, "")
	})

	// S-newview-vs-election-ctxaware: the same race with a consumer that HONOURS its context: its validator is slow (held
	// until a harness thread lets it go) and, if the context it was given has been cancelled by then, gives up with the
	// context's error instead of a verdict. The view the NEW_VIEW opens is the very view the node's own timeout leads to, so
	// the expiry of (h1,v0) during the validation says nothing about the block: once the validator is free, the proposal of
	// the correct leader must still be adopted (C11), and the validation must never run under a context nothing cancels (C15).
	for _, nvView := range []primitives.View{1, 3} {
		nvView := nvView
		name := "S-newview-vs-election-ctxaware"
		if nvView == 3 {
			name = "S-newview3-vs-election-ctxaware" // the same with a NEW_VIEW of view 3 (leader member 3): two views further than the timeout leads
		}
		registerBoth(name, []string{"C11", "C15", "C19"}, 1, 3, 4, func(x *X, cancel bool) {
			n := newNode(x, 2)
			hold := make(chan struct{})
			n.HoldVal[1] = hold
			n.BU.HonourCtx = true
			n.Boot()
			s := x.S
			blk := kit.NewBlock(1, "B1")
			var votes []*interfaces.ViewChangeMessage
			for _, i := range []int{0, 1, 3} {
				votes = append(votes, n.fac(i, nil).CreateViewChangeMessage(1, nvView, nil))
			}
			f := n.fac(int(nvView), nil)
			ppb := f.CreatePreprepareMessageContentBuilder(1, nvView, blk, kit.HashOf(blk))
			msg := f.CreateNewViewMessage(1, nvView, ppb, interfaces.ExtractConfirmationsFromViewChangeMessages(votes), blk).ToConsensusRawMessage()
			delivered := false
			s.Thread("feeder", func() {
				n.M.HandleConsensusMessage(n.Ctx, msg)
				delivered = true
			})
			s.Thread("release", func() {
				vs.Closed(hold)
				close(hold)
			})
			var ss []sample
			observer(n, &ss, 2)
			addCancel(n, cancel)
			if !s.Run(20000) {
				x.Bad("C16", "livelock", "step horizon reached")
			}
			if !cancel && delivered && s.Quiescent() {
				prepared := false
				for _, i := range n.Sent {
					if i.Kind == ref.KP && i.Hdr.View == uint64(nvView) {
						prepared = true
					}
				}
				if !prepared {
					x.Bad("C11", "newview-lost-to-own-timeout", "the correct leader's NEW_VIEW (view "+fmt.Sprint(nvView)+") reached the node while its view was not higher (final view %d, %d expiries); its consumer gave up the validation when the context of the view being left was cancelled, and the NEW_VIEW was dropped for good: no PREPARE for that view (events %v)", n.M.State().View(), s.Fires, tail(n.Events, 10))
				}
			}
			finish(x, n, ss, "")
		})

		// S-newview-vs-sync: no timer ever expires (expiry budget 0). The follower is in (h1,v0) when a sync to height 2 and
		// the correct leader's NEW_VIEW for (h1,v1) reach it in either order. The sync cancels the contexts of height 1; the
		// worker may pick the NEW_VIEW up before the sync. A cancelled context of the current view is NOT an election timeout:
		// the node must not "act on a pending timeout" (enter view 1, send VIEW_CHANGE) that never happened (C19), and it
		// must end in height 2 (C14).
		registerBoth("S-newview-vs-sync", []string{"C19", "C14"}, 0, 3, 4, func(x *X, cancel bool) {
			n := newNode(x, 2)
			n.Boot()
			s := x.S
			blk := kit.NewBlock(1, "B1")
			var votes []*interfaces.ViewChangeMessage
			for _, i := range []int{0, 1, 3} {
				votes = append(votes, n.fac(i, nil).CreateViewChangeMessage(1, nvView, nil))
			}
			f := n.fac(int(nvView), nil)
			ppb := f.CreatePreprepareMessageContentBuilder(1, nvView, blk, kit.HashOf(blk))
			msg := f.CreateNewViewMessage(1, nvView, ppb, interfaces.ExtractConfirmationsFromViewChangeMessages(votes), blk).ToConsensusRawMessage()
			s.Thread("feeder", func() { n.M.HandleConsensusMessage(n.Ctx, msg) })
			synced := false
			s.Thread("sync", func() {
				n.M.UpdateState(n.Ctx, kit.NewBlock(1, "B1"), n.proofFor(1, "B1"))
				synced = true
			})
			addCancel(n, cancel)
			if !s.Run(20000) {
				x.Bad("C16", "livelock", "step horizon reached")
			}
			for _, i := range n.Sent {
				if i.Kind == ref.KVC && s.Fires == 0 {
					x.Bad("C19", "view-change-without-timeout", "no election timer expired, yet the node sent %s (events %v)", i.Desc(), tail(n.Events, 8))
				}
			}
			if !cancel && synced && s.Quiescent() {
				if h := uint64(n.M.State().Height()); h != 2 {
					x.Bad("C14", "sync-not-applied", "after UpdateState(block 1) the node is at height %d (events %v)", h, tail(n.Events, 8))
				}
			}
			finish(x, n, nil, "")
		})
	}

	// S-late-newview-vs-next-election: member 2 leads view 2. It has timed out into view 1 (prefix) and already holds two
	// votes for view 2. Then three things race: the LATE NEW_VIEW of view 1 (correct leader, fresh block), the expiry of
	// the node's (h1,v1) timer, and a third vote for view 2. However the worker and the main loop interleave, the node
	// signs at most ONE proposal for view 2 (C10) and never sends PREPARE for view 1 after it has moved to view 2.
	registerBoth("S-late-newview-vs-next-election", []string{"C10", "C13", "C19"}, 2, 3, 4, func(x *X, cancel bool) {
		n := newNode(x, 2)
		n.Boot()
		s := x.S
		s.PrefixFires = 1
		s.NoBranch = true
		s.Run(20000) // the (h1,v0) timer expires: the node is in view 1
		s.PrefixFires = 0
		s.NoBranch = false
		feed(n, []*interfaces.ConsensusRawMessage{
			n.fac(0, nil).CreateViewChangeMessage(1, 2, nil).ToConsensusRawMessage(),
			n.fac(1, nil).CreateViewChangeMessage(1, 2, nil).ToConsensusRawMessage(),
		})
		if v := uint64(n.M.State().View()); v != 1 {
			x.Bad("HARNESS", "assumption", "prefix did not reach view 1 (view %d)", v)
		}
		blk := kit.NewBlock(1, "B1")
		var votes []*interfaces.ViewChangeMessage
		for _, i := range []int{0, 1, 3} {
			votes = append(votes, n.fac(i, nil).CreateViewChangeMessage(1, 1, nil))
		}
		f := n.fac(1, nil)
		ppb := f.CreatePreprepareMessageContentBuilder(1, 1, blk, kit.HashOf(blk))
		nv := f.CreateNewViewMessage(1, 1, ppb, interfaces.ExtractConfirmationsFromViewChangeMessages(votes), blk).ToConsensusRawMessage()
		s.Thread("late-newview", func() { n.M.HandleConsensusMessage(n.Ctx, nv) })
		v3 := n.fac(3, nil).CreateViewChangeMessage(1, 2, nil).ToConsensusRawMessage()
		v0again := n.fac(0, nil).CreateViewChangeMessage(1, 2, nil).ToConsensusRawMessage()
		s.Thread("voters", func() {
			n.M.HandleConsensusMessage(n.Ctx, v3)
			n.M.HandleConsensusMessage(n.Ctx, v0again) // a re-delivered vote
		})
		var ss []sample
		observer(n, &ss, 2)
		addCancel(n, cancel)
		if !s.Run(20000) {
			x.Bad("C16", "livelock", "step horizon reached")
		}
		props := map[string]bool{}
		reached2 := false
		for _, i := range n.Sent {
			if i.Kind == ref.KNV && i.Hdr.View == 2 {
				props[i.PP.Hash] = true
				reached2 = true
			}
			if i.Kind == ref.KVC && i.Hdr.View >= 2 {
				reached2 = true
			}
			if i.Kind == ref.KP && i.Hdr.View == 1 && reached2 {
				x.Bad("C10", "prepare-for-lower-view", "PREPARE for view 1 sent after the node had moved to view 2 (events %v)", tail(n.Events, 10))
			}
		}
		if len(props) > 1 {
			x.Bad("C10", "two-proposals", "the node signed %d different proposals (NEW_VIEW) for view 2 (events %v)", len(props), tail(n.Events, 10))
		}
		nvs := 0
		for _, i := range n.Sent {
			if i.Kind == ref.KNV && i.Hdr.View == 2 {
				nvs++
			}
		}
		if nvs > 1 {
			x.Bad("C10", "two-newviews", "%d NEW_VIEW messages for view 2", nvs)
		}
		finish(x, n, ss, fmt.Sprintf("nv2=%d", nvs))
	})

	// S-stale-trigger+cancel: an election trigger is already waiting in the worker's queue while the worker is held
	// inside a slow ValidateBlockProposal; a sync then moves the node to the next height (the trigger becomes stale)
	// and the context is cancelled around the moment the worker picks the stale trigger up. Shutdown must still be
	// complete (C16). The deterministic prefix arranges "trigger queued, worker held"; the explorer does the rest.
	register(&Scenario{Name: "S-stale-trigger+cancel", Props: []string{"C16"}, MaxFires: 1, Horizon: 20000, Body: func(x *X) {
		n := newNode(x, 1)
		hold := make(chan struct{})
		n.HoldVal[1] = hold
		n.Boot()
		s := x.S
		s.PrefixFires = 1
		feed(n, n.peerMsgs(1, "B1")[:1]) // PREPREPARE: worker held in the validator; then the (1,0) timer expires and its trigger is queued
		s.PrefixFires = 0
		s.Thread("sync", func() { n.M.UpdateState(n.Ctx, kit.NewBlock(1, "B1"), n.proofFor(1, "B1")) })
		s.Thread("release", func() {
			vs.Closed(hold)
			close(hold)
		})
		s.Thread("cancel", func() { n.Cancel() })
		if !s.Run(20000) {
			x.Bad("C16", "livelock", "step horizon reached")
		}
		finish(x, n, nil, "")
	}})
	quickBound["S-stale-trigger+cancel"], thoroughBound["S-stale-trigger+cancel"] = 3, 4

	// S-trigger-behind-stale: a stale election trigger (h1,v0) is parked in the worker's one-slot queue while the
	// worker (the leader) is held inside a slow RequestNewBlockProposal; a sync to height 1 is queued as well. Once
	// released, the worker may take the sync first, become leader of height 2 and block in RequestNewBlockProposal(h2)
	// under its context; then the (h2,v0) timer expires. The newest trigger must win the queue slot: the node has to
	// reach (h2,v1). (C19: an armed, un-superseded timer delivers its trigger; C05.)
	registerBoth("S-trigger-behind-stale", []string{"C19", "C15"}, 2, 3, 4, func(x *X, cancel bool) {
		n := newNode(x, 0)
		hold := make(chan struct{})
		n.HoldReq[1] = hold
		n.BlockReq[2] = true
		n.Boot() // leader of (h1,v0): held in RequestNewBlockProposal
		s := x.S
		s.PrefixFires = 1
		s.NoBranch = true
		s.Run(20000) // the (h1,v0) timer expires, its trigger is queued behind the held worker ...
		s.PrefixFires = 0
		s.Thread("sync", func() { n.M.UpdateState(n.Ctx, kit.NewBlock(1, "B1"), n.proofFor(1, "B1")) })
		s.Run(20000) // ... and so is the sync
		s.NoBranch = false
		s.Thread("release", func() {
			vs.Closed(hold)
			close(hold)
		})
		addCancel(n, cancel)
		if !s.Run(20000) {
			x.Bad("C16", "livelock", "step horizon reached")
		}
		if !cancel && s.Fires == 2 && s.Quiescent() {
			h, v := uint64(n.M.State().Height()), uint64(n.M.State().View())
			if h == 2 && v == 0 && s.ArmedTimers() == 0 {
				x.Bad("C19", "trigger-lost", "the election timer of (h2,v0) expired but the node is still in (h2,v0) (events %v)", tail(n.Events, 8))
			}
		}
		finish(x, n, nil, "")
	})

	// S-stale-sync-vs-trigger: the node (leader) commits height 1 itself and is then held inside a slow
	// RequestNewBlockProposal(h2). A STALE sync (block 1, below the height being decided) is queued for the worker,
	// then the (h2,v0) timer expires and its trigger is queued too. Once released the worker finds both waiting, in
	// either order: the stale sync must change nothing (C14) and the trigger must still be acted upon (C19): the
	// node has to reach (h2,v1).
	registerBoth("S-stale-sync-vs-trigger", []string{"C14", "C19"}, 1, 3, 4, func(x *X, cancel bool) {
		n := newNode(x, 0)
		hold := make(chan struct{})
		n.HoldReq[2] = hold
		n.Boot()                          // leader of (h1,v0): proposes Pn0.1.0
		feed(n, n.peerMsgs(1, "Pn0.1.0")) // commits height 1, becomes leader of (h2,v0), held in RequestNewBlockProposal(h2)
		s := x.S
		if len(n.Commits) != 1 || uint64(n.M.State().Height()) != 2 {
			x.Bad("HARNESS", "assumption", "prefix did not reach height 2: commits=%v events=%v", n.Commits, tail(n.Events, 8))
		}
		s.NoBranch = true
		s.Thread("stale-sync", func() { n.M.UpdateState(n.Ctx, kit.NewBlock(1, "Pn0.1.0"), n.Proofs[1]) })
		s.Run(20000) // the stale sync is queued behind the held worker ...
		s.PrefixFires = 1
		s.Run(20000) // ... and so is the trigger of the expired (h2,v0) timer
		s.PrefixFires = 0
		s.NoBranch = false
		s.Thread("release", func() {
			vs.Closed(hold)
			close(hold)
		})
		addCancel(n, cancel)
		if !s.Run(20000) {
			x.Bad("C16", "livelock", "step horizon reached")
		}
		if !cancel && s.Quiescent() {
			h, v := uint64(n.M.State().Height()), uint64(n.M.State().View())
			if h != 2 {
				x.Bad("C14", "stale-sync-changed-state", "a sync below the height being decided moved the node to height %d", h)
			} else if v == 0 {
				x.Bad("C19", "trigger-lost", "the election timer of (h2,v0) expired but the node is still in (h2,v0) (events %v)", tail(n.Events, 8))
			}
			if len(n.Rounds) > 2 {
				x.Bad("C14", "stale-sync-changed-state", "stale sync restarted the round: new-round callbacks %v", n.Rounds)
			}
		}
		finish(x, n, nil, "")
	})

	// S-blocked-commit: the follower's commit callback of height 1 waits for its context (a consumer whose persistence
	// honours cancellation). A sync to a higher height (or shutdown) must release it; the node must end above the
	// synced block whatever the released callback reports (error / success), and never restart a round at or below it.
	for _, variant := range []struct {
		nilOnCancel bool
		syncTo      uint64
	}{{false, 3}, {true, 3}, {false, 1}, {true, 1}} {
		nilOnCancel, syncTo := variant.nilOnCancel, variant.syncTo
		name := "S-blocked-commit"
		if nilOnCancel {
			name = "S-blocked-commit-ok"
		}
		if syncTo == 1 { // the sync delivers exactly the block whose commit callback is in progress
			name += "-same"
		}
		registerBoth(name, []string{"C15", "C14", "C13"}, 1, 3, 4, func(x *X, cancel bool) {
			n := newNode(x, 1)
			n.BlockCommit[1] = true
			n.CommitNilOnCancel = nilOnCancel
			n.Boot()
			feed(n, n.peerMsgs(1, "B1")) // the worker is now inside the commit callback of height 1
			s := x.S
			synced := false
			s.Thread("sync", func() {
				n.M.UpdateState(n.Ctx, kit.NewBlock(syncTo, fmt.Sprintf("B%d", syncTo)), n.proofFor(syncTo, fmt.Sprintf("B%d", syncTo)))
				synced = true
			})
			var ss []sample
			observer(n, &ss, 2)
			addCancel(n, cancel)
			if !s.Run(20000) {
				x.Bad("C16", "livelock", "step horizon reached")
			}
			if !cancel {
				if !synced {
					x.Bad("C14", "updatestate-blocked-or-failed", "UpdateState did not return while the worker sits in the commit callback; blocked=%v", s.Blocked())
				}
				for _, c := range n.SpiCalls {
					if !c.Returned {
						x.Bad("C15", "spi-not-released", "%s(h%d) is still blocked although the node was told to leave that height (sync to block %d)", c.Kind, c.Height, syncTo)
					}
				}
				if h := uint64(n.M.State().Height()); h != syncTo+1 {
					x.Bad("C14", "newest-sync-not-effective", "UpdateState(block %d) returned nil but the node ends at height %d (events %v)", syncTo, h, tail(n.Events, 8))
				}
				checkSyncRounds(x, n)
			}
			finish(x, n, ss, "")
		})
	}

	// S-slow-commit: the leader commits height 1 itself; its commit callback is slow and ignores its context. While
	// it runs, a sync to block 5 is accepted. When the callback finally returns, the worker must not start height 2 as
	// first leader under a live context (RequestNewBlockProposal(h2) would wait for ever: it only returns on
	// cancellation): the accepted sync has to take effect, the node ends at height 6.
	registerBoth("S-slow-commit", []string{"C14", "C15", "C13"}, 1, 3, 4, func(x *X, cancel bool) {
		n := newNode(x, 0)
		hold := make(chan struct{})
		n.HoldCommit[1] = hold
		for h := uint64(2); h <= 6; h++ {
			n.BlockReq[h] = true
		}
		n.Boot()                          // leader of (h1,v0): proposes Pn0.1.0
		feed(n, n.peerMsgs(1, "Pn0.1.0")) // quorum: the worker is now held inside the commit callback of height 1
		s := x.S
		synced := false
		s.Thread("sync", func() {
			n.M.UpdateState(n.Ctx, kit.NewBlock(5, "B5"), n.proofFor(5, "B5"))
			synced = true
		})
		s.Thread("release", func() {
			vs.Closed(hold)
			close(hold)
		})
		addCancel(n, cancel)
		if !s.Run(20000) {
			x.Bad("C16", "livelock", "step horizon reached")
		}
		if !cancel {
			if !synced {
				x.Bad("C14", "updatestate-blocked-or-failed", "UpdateState did not return while the worker sits in the commit callback; blocked=%v", s.Blocked())
			}
			if h := uint64(n.M.State().Height()); h != 6 {
				x.Bad("C14", "newest-sync-not-effective", "UpdateState(block 5) returned nil but the node ends at height %d (events %v)", h, tail(n.Events, 8))
			}
			for _, c := range n.SpiCalls {
				if !c.Returned && c.Height < 6 {
					x.Bad("C15", "spi-not-released", "%s(h%d) is still blocked although a sync to block 5 was accepted", c.Kind, c.Height)
				}
			}
			checkSyncRounds(x, n)
		}
		finish(x, n, nil, "")
	})

	// S-message-flood: the leader sits in RequestNewBlockProposal(h1) (returns on cancellation only) while more
	// consensus messages arrive than the worker's queue holds. The overflow must be dropped, not waited for: the main
	// loop is the only one that can cancel the worker's context. Afterwards one more message, a sync and the election
	// timeout race: UpdateState returns, the call is released, the node ends at height 2 (C14, C15; C12's "still
	// processes later messages, elections and UpdateState"). Two variants of the deterministic prefix: "-api" delivers
	// capacity+5 messages through HandleConsensusMessage (8000 scheduling points per execution: thorough tier, small
	// bound); the plain one puts capacity-3 messages into the worker's queue directly while the worker is parked (the
	// state those deliveries lead to) and crosses the capacity boundary with 8 real deliveries.
	for _, viaAPI := range []bool{false, true} {
		viaAPI := viaAPI
		name, qb, tb := "S-message-flood", 1, 2
		if viaAPI {
			name, qb, tb = "S-message-flood-api", 0, 2
		}
		registerBoth(name, []string{"C14", "C15", "C12"}, 1, qb, tb, func(x *X, cancel bool) {
			n := newNode(x, 0)
			n.BlockReq[1] = true
			n.Boot()
			s := x.S
			flood := n.fac(2, nil).CreatePrepareMessage(1, 0, kit.HashOf(kit.NewBlock(1, "B1"))).ToConsensusRawMessage()
			q := n.M.VerifWorker().MessagesChannel
			want := cap(q) + 5
			if !viaAPI {
				for len(q) < cap(q)-3 {
					q <- flood
				}
				want = 8
			}
			fed := 0
			s.NoBranch = true
			s.Thread("flood", func() {
				for i := 0; i < want; i++ {
					n.M.HandleConsensusMessage(n.Ctx, flood)
					fed++
				}
			})
			s.Run(400000)
			s.NoBranch = false
			if fed != want {
				x.Bad("C14", "api-blocked", "HandleConsensusMessage blocked after %d of %d messages while the worker is busy and its queue is full: the main loop waits for the worker; blocked=%v", fed, want, s.Blocked())
				x.Bad("C12", "node-wedged-by-message-burst", "after %d of %d (valid, repeated) consensus messages the node no longer takes messages, elections or syncs: the main loop waits for the busy worker's full queue", fed, want)
				finish(x, n, nil, "")
				return
			}
			late := false
			s.Thread("late-msg", func() {
				n.M.HandleConsensusMessage(n.Ctx, flood)
				late = true
			})
			synced := false
			s.Thread("sync", func() {
				n.M.UpdateState(n.Ctx, kit.NewBlock(1, "B1"), n.proofFor(1, "B1"))
				synced = true
			})
			addCancel(n, cancel)
			if !s.Run(400000) {
				x.Bad("C16", "livelock", "step horizon reached")
			}
			if !cancel {
				if !synced || !late {
					x.Bad("C14", "updatestate-blocked-or-failed", "after a message flood: UpdateState returned=%v, HandleConsensusMessage returned=%v; blocked=%v", synced, late, s.Blocked())
					x.Bad("C12", "node-wedged-by-message-burst", "after a burst of more messages than the worker's queue holds: UpdateState returned=%v, HandleConsensusMessage returned=%v", synced, late)
				}
				for _, c := range n.SpiCalls {
					if !c.Returned && c.Height == 1 {
						x.Bad("C15", "spi-not-released", "%s(h%d) still blocked after a sync to a higher height", c.Kind, c.Height)
					}
				}
				if h := uint64(n.M.State().Height()); h != 2 {
					x.Bad("C14", "newest-sync-not-effective", "UpdateState(block 1) returned nil but the node ends at height %d", h)
				}
			}
			finish(x, n, nil, "")
		})
		if !viaAPI { // the cancel step placed at every point of the drain as well
			quickBound[name+"+cancel"], thoroughBound[name+"+cancel"] = 1, 2
		}
	}

	// S-stale-sync-during-commit: the follower has committed height 1 and is inside a slow commit callback of height 2
	// when a STALE sync (block 1, below the height being decided) is accepted by the main loop and queued for the worker.
	// When the callback returns, height 3 must start as usual: the stale sync changes nothing (C14), in particular it must
	// not swallow the round that follows the commit.
	registerBoth("S-stale-sync-during-commit", []string{"C14", "C13"}, 1, 3, 4, func(x *X, cancel bool) {
		n := newNode(x, 1)
		hold := make(chan struct{})
		n.HoldCommit[2] = hold
		n.Boot()
		feed(n, n.peerMsgs(1, "B1"))
		feed(n, n.peerMsgs(2, "B2")) // the worker is now held inside the commit callback of height 2
		s := x.S
		if len(n.Commits) != 1 || uint64(n.M.State().Height()) != 2 {
			x.Bad("HARNESS", "assumption", "prefix did not reach the commit callback of height 2: commits=%v events=%v", n.Commits, tail(n.Events, 8))
		}
		synced := false
		s.Thread("stale-sync", func() {
			n.M.UpdateState(n.Ctx, kit.NewBlock(1, "B1"), n.Proofs[1])
			synced = true
		})
		s.Thread("release", func() {
			vs.Closed(hold)
			close(hold)
		})
		addCancel(n, cancel)
		if !s.Run(20000) {
			x.Bad("C16", "livelock", "step horizon reached")
		}
		if !cancel {
			if !synced {
				x.Bad("C14", "updatestate-blocked-or-failed", "the stale UpdateState did not return; blocked=%v", s.Blocked())
			}
			if h := uint64(n.M.State().Height()); h != 3 || len(n.Commits) != 2 {
				x.Bad("C14", "stale-sync-changed-state", "a sync below the height being decided arrived during the commit of height 2: the node ends at height %d with commits %v instead of going on to height 3 (events %v)", h, n.Commits, tail(n.Events, 8))
			}
			checkSyncRounds(x, n)
		}
		finish(x, n, nil, "")
	})

	// S-state: the State object alone. One writer (the worker's role: view change, then next height), one reader
	// taking two (height, view) snapshots. Every snapshot must be a state that existed, and snapshots never go back.
	register(&Scenario{Name: "S-state", Props: []string{"C13"}, MaxFires: 0, Horizon: 2000, Body: func(x *X) {
		st := state.NewState()
		s := x.S
		s.Thread("writer", func() {
			st.SetHeightAndResetView(1)
			st.SetView(1)
			st.SetView(2)
			st.SetHeightAndResetView(2)
			st.SetView(1)
		})
		var ss []sample
		s.Thread("reader", func() {
			for i := 0; i < 3; i++ {
				hv := st.HeightView()
				ss = append(ss, sample{uint64(hv.Height()), uint64(hv.View())})
			}
		})
		s.Run(2000)
		legal := map[sample]bool{{0, 0}: true, {1, 0}: true, {1, 1}: true, {1, 2}: true, {2, 0}: true, {2, 1}: true}
		for _, v := range ss {
			if !legal[v] {
				x.Bad("C13", "state-snapshot-never-existed", "observed (height,view) = %v, which the node never was in", v)
			}
		}
		checkSamples(x, ss)
		x.Outcome = fmt.Sprint(ss)
	}})
	quickBound["S-state"], thoroughBound["S-state"] = 6, 9

	// S-idle+cancel: cancellation of an idle node with the election timer armed (C16 only).
	registerBoth("S-idle", []string{"C16"}, 1, 4, 6, func(x *X, cancel bool) {
		n := newNode(x, 1)
		n.Boot()
		addCancel(n, cancel)
		x.S.Run(20000)
		finish(x, n, nil, "")
	})
}

// checkSyncRounds: a round entered by sync must not allow first-leadership above height 1, and a round that
// does allow it must directly follow the node's own commit of the previous height (C14).
func checkSyncRounds(x *X, n *Node) {
	lastCommit := uint64(0)
	for _, e := range n.Events {
		var h uint64
		if strings.HasPrefix(e, "commit(") && !strings.Contains(e, "error") {
			fmt.Sscanf(e, "commit(h%d", &h)
			lastCommit = h
		}
		if strings.HasPrefix(e, "round(") {
			var can bool
			fmt.Sscanf(e, "round(h%d,can=%t)", &h, &can)
			if can && lastCommit != h-1 {
				x.Bad("C14", "sync-round-may-lead", "round of height %d entered without the node's own commit of height %d allows first-leadership: %v", h, h-1, n.Events)
			}
		}
	}
	for _, i := range n.Sent {
		if i.Kind == ref.KPP && i.Hdr.View == 0 && i.Hdr.Height > 1 {
			// a PREPREPARE at view 0 above height 1 is only legitimate after the node's own commit of the previous height
			ok := false
			for _, c := range n.Commits {
				if c == i.Hdr.Height-1 {
					ok = true
				}
			}
			if !ok {
				x.Bad("C14", "first-leader-after-sync", "PREPREPARE(h%d,v0) sent in a round entered by sync", i.Hdr.Height)
			}
		}
	}
}

func tail(a []string, k int) []string {
	if len(a) > k {
		return a[len(a)-k:]
	}
	return a
}
