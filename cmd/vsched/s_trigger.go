package main

import (
	"fmt"
	"time"

	"verif/vs"

	Electiontrigger "github.com/orbs-network/lean-helix-go/services/electiontrigger"
	"github.com/orbs-network/lean-helix-go/services/interfaces"
	"github.com/orbs-network/lean-helix-go/spec/types/go/primitives"
)

// S-trigger (C19): the real TimerBasedElectionTrigger alone. A worker-role thread arms, re-arms, stops and
// arms again; a reader-role thread (the main loop's role) receives triggers; expiries are environment steps.
func init() {
	for _, r := range []int{0, 1, 3} {
		r := r
		name := fmt.Sprintf("S-trigger-r%d", r)
		register(&Scenario{Name: name, Props: []string{"C19"}, MaxFires: 3, Horizon: 5000, Body: func(x *X) { sTrigger(x, r) }})
		quickBound[name], thoroughBound[name] = 5, 7
	}
}

// maxReads = how many triggers the reader-role thread is willing to receive (0 = absent reader).
func sTrigger(x *X, maxReads int) {
	s := x.S
	const base = 7 * time.Millisecond
	et := Electiontrigger.NewTimerBasedElectionTrigger(base, nil)
	type arming struct {
		h, v     uint64
		timer    int // index of the shim timer this arming created
		superAt  int // number of received triggers when it was superseded (-1 = still current)
		received int
	}
	var arms []*arming
	invoked := map[string]int{}
	cb := func(h primitives.BlockHeight, v primitives.View, _ interfaces.OnElectionCallback) {
		invoked[fmt.Sprintf("%d/%d", h, v)]++
	}
	var got []string
	arm := func(h, v uint64) {
		before := len(s.Timers)
		et.RegisterOnElection(primitives.BlockHeight(h), primitives.View(v), cb)
		for _, a := range arms {
			if a.superAt < 0 {
				a.superAt = len(got)
			}
		}
		a := &arming{h: h, v: v, timer: -1, superAt: -1}
		if len(s.Timers) > before {
			a.timer = len(s.Timers) - 1
			if want := et.CalcTimeout(primitives.View(v)); s.Timers[a.timer].D != want {
				x.Bad("C19", "armed-duration", "timer for (%d,%d) armed with %v, CalcTimeout says %v", h, v, s.Timers[a.timer].D, want)
			}
		} else {
			x.Bad("C19", "not-armed", "RegisterOnElection(%d,%d) did not arm a timer", h, v)
		}
		arms = append(arms, a)
	}
	workerDone := false
	s.Thread("worker", func() {
		arm(1, 0)
		arm(1, 1)
		et.Stop()
		for _, a := range arms {
			if a.superAt < 0 {
				a.superAt = len(got)
			}
		}
		arm(2, 0)
		workerDone = true
	})
	reads := 0
	s.Thread("reader", func() {
		for i := 0; i < maxReads; i++ {
			c := et.ElectionChannel()
			vs.Recv(c)
			tr := <-c
			reads++
			k := fmt.Sprintf("%d/%d", tr.Hv.Height(), tr.Hv.View())
			got = append(got, k)
			// which arming does it belong to?
			var owner *arming
			for _, a := range arms {
				if fmt.Sprintf("%d/%d", a.h, a.v) == k {
					owner = a
				}
			}
			if owner == nil {
				x.Bad("C19", "trigger-for-unarmed-pair", "received a trigger for %s which was never armed", k)
				continue
			}
			owner.received++
			if owner.received > 1 {
				x.Bad("C19", "two-triggers-one-arming", "arming (%s) produced %d triggers", k, owner.received)
			}
			if owner.timer < 0 || !s.Timers[owner.timer].Fired {
				x.Bad("C19", "trigger-before-timeout", "trigger for %s delivered although its timer never expired", k)
			}
			// the worker loop's reaction: act only if the pair is the current one
			if owner.superAt < 0 {
				tr.MoveToNextLeader()
			}
		}
	})
	ok := s.Run(5000)
	if !ok {
		x.Bad("C19", "livelock", "step horizon reached")
	}
	if !workerDone {
		x.Bad("C19", "register-blocked", "RegisterOnElection/Stop never returned: blocked=%v", s.Blocked())
	}
	// liveness: the last arming is never superseded; if its timer expired the reader (still reading) must have got it
	if workerDone && len(arms) == 3 {
		last := arms[2]
		if last.timer >= 0 && s.Timers[last.timer].Fired && reads < maxReads && last.received == 0 {
			x.Bad("C19", "trigger-lost", "the timer of the un-superseded arming (2,0) expired but its trigger never reached the reader; blocked=%v", s.Blocked())
		}
		for k, n := range invoked {
			if k != "2/0" && n > 0 {
				// acted on a superseded pair: only possible if the reader acted while it was current
			}
			if n > 1 {
				x.Bad("C19", "callback-twice", "election callback for %s invoked %d times", k, n)
			}
		}
	}
	// a superseded arming must not leave its expiry goroutine pending (it could still deliver the old pair later)
	for _, a := range arms {
		if a.superAt >= 0 && a.timer >= 0 {
			for _, t := range s.Threads {
				if t.Name == fmt.Sprintf("timer%d", a.timer) && !t.Exited {
					x.Bad("C19", "superseded-trigger-still-pending", "the expiry goroutine of the superseded arming (%d,%d) is still blocked on the election channel after Stop/re-arm returned", a.h, a.v)
				}
			}
		}
	}
	x.Outcome = fmt.Sprintf("got=%v invoked=%v fires=%d armed=%d blocked=%d", got, invoked, s.Fires, s.ArmedTimers(), len(s.Blocked()))
}
