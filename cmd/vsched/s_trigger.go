package main

import (
	"fmt"
	"time"

	"verif/vs"

	Electiontrigger "github.com/orbs-network/lean-helix-go/services/electiontrigger"
	"github.com/orbs-network/lean-helix-go/services/interfaces"
	"github.com/orbs-network/lean-helix-go/spec/types/go/primitives"
)

// S-trigger (C19): the real TimerBasedElectionTrigger alone. A worker-role thread arms, re-arms, stops and
// arms again; a reader-role thread (the main loop's role) receives triggers; expiries are environment steps.
func init() {
	// operation sequences of the worker-role thread: A = arm, re-arm, stop, arm the next height;
	// B = arm, stop, arm the SAME pair again; C = arm, arm the same pair (no-op), stop;
	// D = arm, re-arm a higher view, arm that view AGAIN (what a node does that timed out into view v and then
	// receives the NEW_VIEW of v: the repeat must be a no-op, whatever happened to the first pair); E = the same after a Stop
	for _, seq := range []string{"A", "B", "C", "D", "E"} {
		for _, r := range []int{0, 1, 3} {
			r, seq := r, seq
			name := fmt.Sprintf("S-trigger-%s-r%d", seq, r)
			register(&Scenario{Name: name, Props: []string{"C19"}, MaxFires: 3, Horizon: 5000, Body: func(x *X) { sTrigger(x, r, seq) }})
			quickBound[name], thoroughBound[name] = 5, 7
		}
	}
}

// maxReads = how many triggers the reader-role thread is willing to receive (0 = absent reader).
func sTrigger(x *X, maxReads int, seq string) {
	s := x.S
	const base = 7 * time.Millisecond
	et := Electiontrigger.NewTimerBasedElectionTrigger(base, nil)
	type arming struct {
		h, v     uint64
		timer    int // index of the shim timer this arming created
		superAt  int // number of received triggers when it was superseded (-1 = still current)
		received int
	}
	var arms []*arming
	invoked := map[string]int{}
	cb := func(h primitives.BlockHeight, v primitives.View, _ interfaces.OnElectionCallback) {
		invoked[fmt.Sprintf("%d/%d", h, v)]++
	}
	var got []string
	current := func() *arming {
		for _, a := range arms {
			if a.superAt < 0 {
				return a
			}
		}
		return nil
	}
	arm := func(h, v uint64) {
		before := len(s.Timers)
		cur := current()
		same := cur != nil && cur.h == h && cur.v == v // arming the pair that is already armed is a no-op
		et.RegisterOnElection(primitives.BlockHeight(h), primitives.View(v), cb)
		if same {
			if len(s.Timers) > before {
				x.Bad("C19", "duplicate-arming", "RegisterOnElection(%d,%d) for the pair that is already armed created a second timer", h, v)
			}
			return
		}
		for _, a := range arms {
			if a.superAt < 0 {
				a.superAt = len(got)
			}
		}
		a := &arming{h: h, v: v, timer: -1, superAt: -1}
		if len(s.Timers) > before {
			a.timer = len(s.Timers) - 1
			if want := et.CalcTimeout(primitives.View(v)); s.Timers[a.timer].D != want {
				x.Bad("C19", "armed-duration", "timer for (%d,%d) armed with %v, CalcTimeout says %v", h, v, s.Timers[a.timer].D, want)
			}
		} else {
			x.Bad("C19", "not-armed", "RegisterOnElection(%d,%d) did not arm a timer", h, v)
		}
		arms = append(arms, a)
	}
	stop := func() {
		et.Stop()
		for _, a := range arms {
			if a.superAt < 0 {
				a.superAt = len(got)
			}
		}
	}
	workerDone := false
	s.Thread("worker", func() {
		// vs.CtxPoint() = an explicit scheduling point between two operations of the worker role
		// (time passes between them in reality: the timer may expire there)
		switch seq {
		case "A":
			arm(1, 0)
			vs.CtxPoint()
			arm(1, 1)
			vs.CtxPoint()
			stop()
			vs.CtxPoint()
			arm(2, 0)
		case "B":
			arm(1, 0)
			vs.CtxPoint()
			stop()
			vs.CtxPoint()
			arm(1, 0)
		case "C":
			arm(1, 0)
			vs.CtxPoint()
			arm(1, 0)
			vs.CtxPoint()
			stop()
		case "D":
			arm(1, 0)
			vs.CtxPoint()
			arm(1, 1)
			vs.CtxPoint()
			arm(1, 1)
		case "E":
			arm(1, 0)
			vs.CtxPoint()
			stop()
			vs.CtxPoint()
			arm(1, 1)
			vs.CtxPoint()
			arm(1, 1)
		}
		workerDone = true
	})
	reads := 0
	s.Thread("reader", func() {
		for i := 0; i < maxReads; i++ {
			c := et.ElectionChannel()
			vs.Recv(c)
			tr := <-c
			reads++
			k := fmt.Sprintf("%d/%d", tr.Hv.Height(), tr.Hv.View())
			got = append(got, k)
			// which arming does it belong to?
			var owner *arming
			for _, a := range arms {
				if fmt.Sprintf("%d/%d", a.h, a.v) == k && (owner == nil || a.timer >= 0 && s.Timers[a.timer].Fired && a.received == 0) {
					owner = a
				}
			}
			if owner == nil {
				x.Bad("C19", "trigger-for-unarmed-pair", "received a trigger for %s which was never armed", k)
				continue
			}
			owner.received++
			if owner.received > 1 {
				x.Bad("C19", "two-triggers-one-arming", "arming (%s) produced %d triggers", k, owner.received)
			}
			if owner.timer < 0 || !s.Timers[owner.timer].Fired {
				x.Bad("C19", "trigger-before-timeout", "trigger for %s delivered although its timer never expired", k)
			}
			// the worker loop's reaction: act only if the pair is the current one
			if owner.superAt < 0 {
				tr.MoveToNextLeader()
			}
		}
	})
	ok := s.Run(5000)
	if !ok {
		x.Bad("C19", "livelock", "step horizon reached")
	}
	if !workerDone {
		x.Bad("C19", "register-blocked", "RegisterOnElection/Stop never returned: blocked=%v", s.Blocked())
	}
	// liveness: an arming that is never superseded, whose timer expired, must reach a reader that is still reading
	if workerDone {
		if last := current(); last != nil && last.timer >= 0 && s.Timers[last.timer].Fired && reads < maxReads && last.received == 0 {
			x.Bad("C19", "trigger-lost", "the timer of the un-superseded arming (%d,%d) expired but its trigger never reached the reader; blocked=%v", last.h, last.v, s.Blocked())
		}
		for k, n := range invoked {
			if n > len(arms) {
				x.Bad("C19", "callback-twice", "election callback for %s invoked %d times", k, n)
			}
		}
	}
	// a superseded arming must not leave its expiry goroutine pending (it could still deliver the old pair later)
	for _, a := range arms {
		if a.superAt >= 0 && a.timer >= 0 {
			for _, t := range s.Threads {
				if t.Name == fmt.Sprintf("timer%d", a.timer) && !t.Exited {
					x.Bad("C19", "superseded-trigger-still-pending", "the expiry goroutine of the superseded arming (%d,%d) is still blocked on the election channel after Stop/re-arm returned", a.h, a.v)
				}
			}
		}
	}
	x.Outcome = fmt.Sprintf("got=%v invoked=%v fires=%d armed=%d blocked=%d", got, invoked, s.Fires, s.ArmedTimers(), len(s.Blocked()))
}
