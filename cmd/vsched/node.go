package main

import (
	"context"
	"fmt"
	"strings"
	"sync"
	"time"

	"verif/kit"
	"verif/ref"
	"verif/vs"

	lh "github.com/orbs-network/lean-helix-go"
	"github.com/orbs-network/lean-helix-go/services/interfaces"
	"github.com/orbs-network/lean-helix-go/services/messagesfactory"
	"github.com/orbs-network/lean-helix-go/services/randomseed"
	"github.com/orbs-network/lean-helix-go/spec/types/go/primitives"
	"github.com/orbs-network/lean-helix-go/spec/types/go/protocol"
)

// Node = a real MainLoop (node under test) in a 4-member committee with strict SPI fakes; the other
// members are scripted (their messages are built with their keys).
type Node struct {
	x      *X
	Idx    int
	C      kit.Committee
	M      *lh.MainLoop
	Comm   *kit.Comm
	BU     *kit.BlockUtils
	Mem    *kit.Membership
	Ctx    context.Context
	Cancel context.CancelFunc

	mu       sync.Mutex
	Events   []string // ordered observation log
	Commits  []uint64
	CommitT  []string
	Rounds   []uint64
	RoundCan []bool
	Sent     []ref.Info
	Proofs   map[uint64][]byte
	Blocks   map[uint64]interface{}
	Down     bool // set once WaitUntilShutdown returned
	AfterDown []string
	CommitErrAt map[uint64]bool
	// blocking SPI: heights at which RequestNewBlockProposal / ValidateBlockProposal wait for their context
	BlockReq, BlockVal map[uint64]bool
	HoldReq            map[uint64]chan struct{} // same for RequestNewBlockProposal
	InSPI              int                      // blocking-capable SPI calls in progress
	HoldVal            map[uint64]chan struct{} // ValidateBlockProposal of that height waits until the harness closes the channel (a slow consumer that ignores its context)
	BlockCommittee     map[uint64]bool // heights whose RequestOrderedCommittee fails for as long as its context lives
	BlockCommit        map[uint64]bool          // heights whose commit callback waits for its context (a consumer whose persistence honours cancellation)
	HoldCommit         map[uint64]chan struct{} // heights whose commit callback waits until the harness closes the channel (a slow consumer that ignores its context)
	CommitNilOnCancel  bool                     // a commit callback released by cancellation reports success instead of the context error
	SpiCalls []*SpiCall
	spiHold  chan struct{}
}

type SpiCall struct {
	Kind      string
	Height    uint64
	Ctx       context.Context
	Returned  bool
	CtxErrAtReturn bool
	Tag       string
}

func (n *Node) ev(format string, a ...interface{}) {
	n.mu.Lock()
	s := fmt.Sprintf(format, a...)
	n.Events = append(n.Events, s)
	if n.Down {
		n.AfterDown = append(n.AfterDown, s)
	}
	n.mu.Unlock()
}

func newNode(x *X, idx int) *Node { return newNodeC(x, idx, kit.EqualCommittee(4)) }

func newNodeC(x *X, idx int, c kit.Committee) *Node {
	n := &Node{x: x, Idx: idx, C: c, Comm: &kit.Comm{}, Proofs: map[uint64][]byte{}, Blocks: map[uint64]interface{}{}, CommitErrAt: map[uint64]bool{}, BlockReq: map[uint64]bool{}, BlockVal: map[uint64]bool{}}
	id := c[idx].ID
	n.Mem = &kit.Membership{Me: id, Committee: c}
	n.BlockCommittee = map[uint64]bool{}
	n.BlockCommit, n.HoldCommit = map[uint64]bool{}, map[uint64]chan struct{}{}
	n.Mem.Gate = func(ctx context.Context, h primitives.BlockHeight) error {
		if !n.BlockCommittee[uint64(h)] {
			return nil
		}
		// the committee contract is unavailable: the call only comes back (with an error) once its context ends
		n.ev("spi-committee(h%d) enter ctxerr=%v", h, ctx.Err() != nil)
		n.inSPI(1)
		d := ctx.Done()
		vs.Recv(d)
		<-d
		n.inSPI(-1)
		n.ev("spi-committee(h%d) return error", h)
		return ctx.Err()
	}
	n.BU = &kit.BlockUtils{Me: id}
	n.HoldReq = map[uint64]chan struct{}{}
	n.BU.ReqGate = func(ctx context.Context, h primitives.BlockHeight) {
		n.spiHold = n.HoldReq[uint64(h)]
		n.spi("request", uint64(h), ctx, n.BlockReq[uint64(h)])
	}
	n.HoldVal = map[uint64]chan struct{}{}
	n.BU.ValGate = func(ctx context.Context, h primitives.BlockHeight) {
		n.spiHold = n.HoldVal[uint64(h)]
		n.spi("validate", uint64(h), ctx, n.BlockVal[uint64(h)])
	}
	n.Comm.Hook = func(o kit.Out) {
		i := ref.Parse(o.Msg)
		n.mu.Lock()
		n.Sent = append(n.Sent, i)
		n.mu.Unlock()
		n.ev("send %s", i.Desc())
	}
	n.Ctx, n.Cancel = context.WithCancel(context.Background())
	return n
}

// spi records a blocking-capable SPI call; if block is set the call waits until its context is cancelled.
func (n *Node) spi(kind string, h uint64, ctx context.Context, block bool) {
	c := &SpiCall{Kind: kind, Height: h, Ctx: ctx}
	n.mu.Lock()
	n.SpiCalls = append(n.SpiCalls, c)
	n.mu.Unlock()
	n.inSPI(1)
	defer n.inSPI(-1)
	n.ev("spi-%s(h%d) enter ctxerr=%v", kind, h, ctx.Err() != nil)
	if ctx.Err() != nil && kind != "commit" {
		n.x.Bad("C15", "spi-called-with-cancelled-context", "%s for height %d was started with an already cancelled context", kind, h)
	}
	if kind == "request" && n.M != nil {
		// the proposal is requested for the position the node is in: its context must be that position's context
		// (a context of an earlier view would be cancelled by events about that earlier view)
		cur := n.M.State().HeightView()
		if want, err := n.M.State().Contexts.For(cur); err == nil && want != ctx {
			n.x.Bad("C15", "spi-context-of-another-position", "RequestNewBlockProposal at %s was given a context that is not the context of that position", cur)
		}
	}
	if hold := n.spiHold; hold != nil { // a slow consumer that ignores its context until the harness lets it go
		n.spiHold = nil
		vs.Recv(hold)
		<-hold
	}
	if block {
		d := ctx.Done()
		vs.Recv(d)
		<-d
	}
	c.Returned = true
	c.CtxErrAtReturn = ctx.Err() != nil
	n.ev("spi-%s(h%d) return ctxerr=%v", kind, h, c.CtxErrAtReturn)
}

func (n *Node) inSPI(d int) {
	n.mu.Lock()
	n.InSPI += d
	n.mu.Unlock()
}

func (n *Node) config() *interfaces.Config {
	return &interfaces.Config{InstanceId: kit.Instance, Communication: n.Comm, Membership: n.Mem, BlockUtils: n.BU, KeyManager: &kit.KeyManager{Me: n.C[n.Idx].ID},
		ElectionTimeoutOnV0: time.Second, Storage: kit.NewStore(false)}
}

func (n *Node) onCommit(ctx context.Context, b interfaces.Block, p []byte) error {
	h := uint64(b.Height())
	if n.BlockCommit[h] || n.HoldCommit[h] != nil {
		n.spiHold = n.HoldCommit[h]
		n.spi("commit", h, ctx, n.BlockCommit[h])
		if n.BlockCommit[h] && !n.CommitNilOnCancel {
			n.ev("commit(h%d,%s) -> error (cancelled)", h, kit.TagOf(b))
			return ctx.Err()
		}
	}
	if n.CommitErrAt[h] {
		n.ev("commit(h%d,%s) -> error", h, kit.TagOf(b))
		return fmt.Errorf("consumer failed")
	}
	n.mu.Lock()
	n.Commits = append(n.Commits, h)
	n.CommitT = append(n.CommitT, kit.TagOf(b))
	n.Proofs[h] = append([]byte{}, p...)
	n.Blocks[h] = b
	n.mu.Unlock()
	n.ev("commit(h%d,%s)", h, kit.TagOf(b))
	return nil
}

func (n *Node) onRound(ctx context.Context, h primitives.BlockHeight, prev interfaces.Block, can bool) {
	n.mu.Lock()
	n.Rounds = append(n.Rounds, uint64(h))
	n.RoundCan = append(n.RoundCan, can)
	n.mu.Unlock()
	n.ev("round(h%d,can=%v)", h, can)
}

// Boot = deterministic setup phase: create, Run, sync to genesis; runs to quiescence without branching.
func (n *Node) Boot() {
	s := n.x.S
	s.NoBranch = true
	s.Thread("setup", func() {
		n.M = lh.NewLeanHelix(n.config(), n.onCommit, n.onRound)
		n.M.Run(n.Ctx)
		if err := n.M.UpdateState(n.Ctx, nil, nil); err != nil {
			n.x.Bad("C14", "genesis-sync-failed", "UpdateState(genesis) returned %v", err)
		}
	})
	s.Run(20000)
	s.NoBranch = false
}

// Shutdown = deterministic epilogue: cancel, WaitUntilShutdown, then the C16 post-conditions.
func (n *Node) Shutdown(check bool) {
	s := n.x.S
	s.NoBranch = true
	returned := false
	s.Thread("shutdown", func() {
		n.Cancel()
		n.M.WaitUntilShutdown(context.Background())
		returned = true
		n.mu.Lock()
		n.Down = true
		n.mu.Unlock()
	})
	s.Run(20000)
	s.NoBranch = false
	if !check {
		return
	}
	n.PostShutdownChecks(returned)
}

func (n *Node) PostShutdownChecks(returned bool) {
	s := n.x.S
	x := n.x
	if !returned {
		x.Bad("C16", "shutdown-hangs", "WaitUntilShutdown did not return after cancellation; blocked: %v", s.Blocked())
		return
	}
	if k := s.ArmedTimers(); k > 0 {
		x.Bad("C16", "timer-left-armed", "%d election timer(s) still armed after shutdown", k)
	}
	// fire whatever could still fire, deliver nothing else: nothing may happen
	s.MaxFires += 4
	s.Run(2000)
	if b := s.Blocked(); len(b) > 0 {
		x.Bad("C16", "goroutine-leak", "threads still alive after shutdown: %v", b)
	}
	n.mu.Lock()
	after := append([]string{}, n.AfterDown...)
	n.mu.Unlock()
	if len(after) > 0 {
		x.Bad("C16", "activity-after-shutdown", "after WaitUntilShutdown returned: %v", after)
	}
	// API calls with the cancelled context return promptly
	done := 0
	s.NoBranch = true
	s.Thread("late-api", func() {
		n.M.HandleConsensusMessage(n.Ctx, n.peerMsgs(1, "B1")[0])
		done++
		n.M.UpdateState(n.Ctx, kit.NewBlock(9, "B9"), nil)
		done++
		if err := n.M.ValidateBlockConsensus(n.Ctx, kit.NewBlock(1, "B1"), []byte{1}, nil, nil, false); err == nil {
			x.Bad("C16", "validate-after-shutdown", "ValidateBlockConsensus with a cancelled context returned nil")
		}
		done++
	})
	s.Run(2000)
	s.NoBranch = false
	if done != 3 {
		x.Bad("C16", "api-blocks-after-shutdown", "API calls with the cancelled context did not return (%d of 3 returned); blocked: %v", done, s.Blocked())
	}
}

// fac builds member i's message factory for the term that follows prevProof (nil = genesis).
func (n *Node) fac(i int, prevProof []byte) *messagesfactory.MessageFactory {
	id := n.C[i].ID
	seed := randomseed.CalculateRandomSeed(protocol.BlockProofReader(prevProof).RandomSeedSignature())
	return messagesfactory.NewMessageFactory(kit.Instance, &kit.KeyManager{Me: id}, id, seed)
}

// chainProof(h) = the proof a node produces when it commits height h in view 0 after committing 1..h-1
// with the scripted peers (the aggregated seed signature is a function of the height and the previous seed).
func chainSeedSig(h uint64) []byte {
	var prev []byte
	for k := uint64(1); k <= h; k++ {
		seed := randomseed.CalculateRandomSeed(prev)
		prev = kit.MasterSeedSig(primitives.BlockHeight(k), kit.SeedDigest(randomseed.RandomSeedToBytes(seed)))
	}
	return prev
}

var _ = protocol.LEAN_HELIX_COMMIT

// peerMsgs: the messages of the scripted members that let the node commit block (h, tag) in view 0:
// PREPREPARE of the leader (member 0), PREPAREs and COMMITs of the other peers.
func (n *Node) peerMsgs(h uint64, tag string) []*interfaces.ConsensusRawMessage {
	return n.peerMsgsAfter(h, tag, n.prevProofOf(h))
}

// prevProofOf(h): the previous-block proof of the term of height h on the committed chain.
func (n *Node) prevProofOf(h uint64) []byte {
	if h <= 1 {
		return nil
	}
	return (&protocol.BlockProofBuilder{RandomSeedSignature: chainSeedSig(h - 1)}).Build().Raw()
}

func (n *Node) peerMsgsAfter(h uint64, tag string, prevProof []byte) []*interfaces.ConsensusRawMessage {
	blk := kit.NewBlock(h, tag)
	hash := kit.HashOf(blk)
	H := primitives.BlockHeight(h)
	var r []*interfaces.ConsensusRawMessage
	leader := 0
	if n.Idx != leader {
		r = append(r, n.fac(leader, prevProof).CreatePreprepareMessage(H, 0, blk, hash).ToConsensusRawMessage())
	}
	for i := range n.C {
		if i != n.Idx && i != leader {
			r = append(r, n.fac(i, prevProof).CreatePrepareMessage(H, 0, hash).ToConsensusRawMessage())
		}
	}
	for i := range n.C {
		if i != n.Idx {
			r = append(r, n.fac(i, prevProof).CreateCommitMessage(H, 0, hash).ToConsensusRawMessage())
		}
	}
	return r
}

// proofFor builds a valid block proof for (h, tag) signed by the scripted peers (for UpdateState).
func (n *Node) proofFor(h uint64, tag string) []byte {
	blk := kit.NewBlock(h, tag)
	hash := kit.HashOf(blk)
	H := primitives.BlockHeight(h)
	hdr := &protocol.BlockRefBuilder{MessageType: protocol.LEAN_HELIX_COMMIT, InstanceId: kit.Instance, BlockHeight: H, View: 0, BlockHash: hash}
	raw := hdr.Build().Raw()
	var nodes []*protocol.SenderSignatureBuilder
	for i, m := range n.C {
		if i != n.Idx {
			nodes = append(nodes, &protocol.SenderSignatureBuilder{MemberId: m.ID, Signature: kit.Sig("C", m.ID, H, raw)})
		}
	}
	return (&protocol.BlockProofBuilder{BlockRef: hdr, Nodes: nodes, RandomSeedSignature: chainSeedSig(h)}).Build().Raw()
}

// common end-of-execution oracles (C13 and parts of C14/C15) over the observation log
func (n *Node) CommonChecks() {
	x := n.x
	n.mu.Lock()
	defer n.mu.Unlock()
	for i := 1; i < len(n.Commits); i++ {
		if n.Commits[i] <= n.Commits[i-1] {
			x.Bad("C13", "commit-heights-not-increasing", "commit callback heights %v", n.Commits)
		}
	}
	for i := 1; i < len(n.Rounds); i++ {
		if n.Rounds[i] <= n.Rounds[i-1] {
			x.Bad("C13", "round-heights-not-increasing", "new-round callback heights %v", n.Rounds)
		}
	}
	// a commit for height h is only followed by rounds above h
	lastCommit := uint64(0)
	for _, e := range n.Events {
		var h uint64
		var tag string
		if _, err := fmt.Sscanf(e, "commit(h%d,%s", &h, &tag); err == nil && !strings.Contains(e, "error") {
			lastCommit = h
		}
		var can bool
		if _, err := fmt.Sscanf(e, "round(h%d,can=%t)", &h, &can); err == nil {
			if h <= lastCommit {
				x.Bad("C13", "round-not-above-commit", "new round for height %d after the commit of height %d: %v", h, lastCommit, n.Events)
			}
		}
	}
	// no proposal is broadcast by a call that returned under a cancelled context
	for _, c := range n.SpiCalls {
		if c.Kind == "request" && c.Returned && c.CtxErrAtReturn {
			for _, s := range n.Sent {
				if (s.Kind == ref.KPP || s.Kind == ref.KNV) && s.Hdr.Height == c.Height && strings.HasPrefix(s.BlockTag, "P") {
					// the fake tags proposals P<id>.<h>.<v>; the cancelled call's result must not be on the wire
					x.Bad("C15", "proposal-after-cancelled-request", "%s broadcast although RequestNewBlockProposal(h%d) returned under a cancelled context", s.Desc(), c.Height)
				}
			}
		}
	}
}
