package main

import (
	"fmt"
	"math/big"
	"math/bits"

	"github.com/orbs-network/lean-helix-go/services/interfaces"
	"github.com/orbs-network/lean-helix-go/services/quorum"
	"github.com/orbs-network/lean-helix-go/spec/types/go/primitives"
)

// C06: quorum arithmetic. Every weight vector over a boundary grid (totals fit in 64 bits), every subset,
// every subset pair, id multisets with duplicates / outsiders / zero-weight members.
func init() { checks["C06"] = c06 }

func c06grid() []uint64 {
	g := []uint64{0, 1, 2, 3, 4, 5, 7, 1 << 31, 1<<32 + 1, 1<<53 - 1, 1 << 53, 1<<53 + 1, 1<<53 + 2, 1<<60 + 1, 1<<62 + 3}
	return g
}

var c06kept []primitives.MemberWeight
var c06keptOf []uint64

// c06schemes: how member ids are spelled. The arithmetic must not depend on it: ids are opaque byte strings of
// any length, compared as a whole (long ids with a common prefix, ids that extend one another by zero bytes,
// ids differing only in their first / last byte or in letter case, binary ids).
var c06schemes = []string{"byte", "longprefix", "zeroext", "longsuffix", "case", "binary"}

func c06id(scheme string, i int) []byte {
	switch scheme {
	case "longprefix": // 40 common bytes, then the index
		return append([]byte("orbs-validator-node-eu-west-1-deployment-"), byte('0'+i))
	case "zeroext": // {1}, {1,0}, {1,0,0}, ...
		return append([]byte{1}, make([]byte, i)...)
	case "longsuffix": // the index, then 40 common bytes
		return append([]byte{byte('0' + i)}, []byte("-orbs-validator-node-eu-west-1-deployment")...)
	case "case": // differ in letter case / one bit only
		b := []byte("abcdefgh")
		b[i%8] ^= 0x20
		if i >= 8 {
			b[(i+1)%8] ^= 0x20
		}
		return b
	case "binary": // 0xff.., 0x80.., invalid utf-8, embedded zero
		return [][]byte{{0xff}, {0xff, 0xff}, {0x80, 0x00, 0x80}, {0x00}, {0x00, 0x00}, {0xc3, 0x28}, {0xc3}, {0x28}}[i%8]
	}
	return []byte{byte('a' + i)}
}

func c06check(r *Rec, w []uint64) {
	c06checkIds(r, w, "byte")
	if len(w) >= 2 && len(w) <= 4 {
		small := true
		for _, x := range w {
			if x > 7 {
				small = false
			}
		}
		if small { // the id spelling is independent of the magnitude of the weights: small weights only
			for _, sch := range c06schemes[1:] {
				c06checkIds(r, w, sch)
			}
		}
	}
}

func c06checkIds(r *Rec, w []uint64, scheme string) {
	n := len(w)
	sum := new(big.Int)
	for _, x := range w {
		sum.Add(sum, new(big.Int).SetUint64(x))
	}
	if sum.BitLen() > 64 {
		if scheme == "byte" {
			c06overflow(r, w, sum)
		}
		return
	}
	W := sum.Uint64()
	members := make([]interfaces.CommitteeMember, n)
	weights := make([]primitives.MemberWeight, n)
	for i, x := range w {
		members[i] = interfaces.CommitteeMember{Id: c06id(scheme, i), Weight: primitives.MemberWeight(x)}
		weights[i] = primitives.MemberWeight(x)
	}
	cs := map[string]interface{}{"weights": fmt.Sprint(w), "ids": scheme}
	isMember := map[string]bool{}
	for _, m := range members {
		isMember[string(m.Id)] = true
	}
	// near-miss outsiders: ids that are NOT members but extend, truncate, pad or re-case a member's id
	var near []primitives.MemberId
	for _, m := range members {
		id := []byte(m.Id)
		cands := [][]byte{append(append([]byte{}, id...), 0), append(append([]byte{}, id...), id...), id[:len(id)-1], append([]byte{0}, id...)}
		fl := append([]byte{}, id...)
		fl[len(fl)-1] ^= 0x20
		cands = append(cands, fl)
		if len(id) > 20 {
			cands = append(cands, append([]byte{}, id[:20]...), append(append([]byte{}, id[:20]...), 'X'))
		}
		for _, c := range cands {
			if !isMember[string(c)] {
				near = append(near, primitives.MemberId(c))
			}
		}
	}

	// reference
	var f, q uint64
	if W == 0 {
		f, q = 0, 1
	} else {
		f = (W - 1) / 3
		q = W - f
	}
	class := fmt.Sprintf("n%d bits%d mod%d %s", n, bits.Len64(W), W%3, scheme)
	r.Case(class)
	gotF, gotQ := uint64(quorum.CalcByzMaxWeight(weights)), uint64(quorum.CalcQuorumWeight(weights))
	if gotF != f {
		r.Bad("C06:f-wrong", fmt.Sprintf("CalcByzMaxWeight(%v) = %d, floor((W-1)/3) = %d (W=%d)", w, gotF, f, W), cs)
	}
	if gotQ != q {
		r.Bad("C06:q-wrong", fmt.Sprintf("CalcQuorumWeight(%v) = %d, W - f = %d (W=%d)", w, gotQ, q, W), cs)
	}
	// every subset through the real predicates
	N := 1 << uint(n)
	isQ := make([]bool, N)
	hasH := make([]bool, N)
	wt := make([]uint64, N)
	for s := 0; s < N; s++ {
		var ids []primitives.MemberId
		for i := 0; i < n; i++ {
			if s&(1<<uint(i)) != 0 {
				ids = append(ids, members[i].Id)
				wt[s] += w[i]
			}
		}
		var rw, rq, rb uint
		isQ[s], rw, rq = quorum.IsQuorum(ids, members)
		var hw uint
		hasH[s], hw, rb = quorum.HasHonest(ids, members)
		r.Evals += 2
		if uint64(rw) != wt[s] || uint64(hw) != wt[s] {
			r.Bad("C06:subset-weight", fmt.Sprintf("weights %v subset %b: reported weight %d/%d, expected %d", w, s, rw, hw, wt[s]), cs)
		}
		if uint64(rq) != gotQ || uint64(rb) != gotF {
			r.Bad("C06:threshold-inconsistent", fmt.Sprintf("weights %v: IsQuorum reports q=%d, HasHonest reports b=%d, Calc* report %d/%d", w, rq, rb, gotQ, gotF), cs)
		}
		if isQ[s] && !hasH[s] {
			r.Bad("C06:quorum-without-honest", fmt.Sprintf("weights %v subset %b passes IsQuorum but not HasHonest", w, s), cs)
		}
		if isQ[s] != (wt[s] >= q) && W > 0 {
			r.Bad("C06:isquorum-vs-reference", fmt.Sprintf("weights %v subset %b (weight %d): IsQuorum=%v, reference Q=%d", w, s, wt[s], isQ[s], q), cs)
		}
		if hasH[s] != (wt[s] > f) {
			r.Bad("C06:hashonest-vs-reference", fmt.Sprintf("weights %v subset %b (weight %d): HasHonest=%v, reference f=%d", w, s, wt[s], hasH[s], f), cs)
		}
		// duplicates, outsiders, empty ids add nothing
		noisy := append(append([]primitives.MemberId{}, ids...), ids...)
		noisy = append(noisy, primitives.MemberId("zz-outsider"), primitives.MemberId{})
		noisy = append(noisy, near...)
		nq, nw, _ := quorum.IsQuorum(noisy, members)
		nh, _, _ := quorum.HasHonest(noisy, members)
		r.Evals += 2
		if nq != isQ[s] || nh != hasH[s] || uint64(nw) != wt[s] {
			r.Bad("C06:noise-adds-weight", fmt.Sprintf("weights %v subset %b: duplicates / outsiders (incl. ids that extend, truncate or re-case a member id) / empty id changed the verdict (%v/%v w=%d vs %v/%v w=%d)", w, s, nq, nh, nw, isQ[s], hasH[s], wt[s]), cs)
		}
	}
	// history independence: what an earlier call returned must not change when another committee is evaluated
	// (the committees of two heights are evaluated side by side by ValidateBlockConsensus and the worker)
	if scheme == "byte" && c06kept != nil && len(c06kept) == len(c06keptOf) {
		for i := range c06kept {
			if uint64(c06kept[i]) != c06keptOf[i] {
				r.Bad("C06:result-aliased", fmt.Sprintf("the weights returned for committee %v read %v after committee %v was evaluated", c06keptOf, c06kept, w), map[string]interface{}{"weights": fmt.Sprint(c06keptOf), "then": fmt.Sprint(w)})
				break
			}
		}
	}
	if scheme == "byte" {
		c06kept, c06keptOf = quorum.GetWeights(members), append([]uint64{}, w...)
	}
	full := N - 1
	for a := 0; a < N; a++ {
		// complement of any <= f subset is a quorum (attainability)
		if W > 0 && wt[a] <= f && !isQ[full&^a] {
			r.Bad("C06:unattainable", fmt.Sprintf("weights %v: members outside the f-weight subset %b (weight %d <= f=%d) do not pass IsQuorum", w, a, wt[a], f), cs)
		}
		for b := 0; b < N; b++ {
			r.Evals++
			if isQ[a] && isQ[b] && W > 0 {
				if wt[a&b] <= f {
					r.Bad("C06:intersection", fmt.Sprintf("weights %v: quorums %b and %b intersect in weight %d <= f=%d", w, a, b, wt[a&b], f), cs)
				}
			}
			if a&b == a { // a subset of b: monotone
				if isQ[a] && !isQ[b] || hasH[a] && !hasH[b] {
					r.Bad("C06:not-monotone", fmt.Sprintf("weights %v: %b passes but its superset %b does not", w, a, b), cs)
				}
			}
		}
	}
	if len(r.Samples) < 4 && (W > 1<<53 || r.Evals%7 == 0) {
		r.Sample(map[string]interface{}{"weights": fmt.Sprint(w), "W": fmt.Sprint(W), "f": fmt.Sprint(f), "Q": fmt.Sprint(q), "subsets": N, "pairs": N * N})
	}
}

// c06overflow: committees whose total weight does not fit in 64 bits (each weight does). The library's return types
// cannot even express f and Q then; whatever the three predicates answer is compared with big-integer arithmetic and
// every discrepancy is reported under ONE fingerprint (recorded known finding: the sums wrap around).
func c06overflow(r *Rec, w []uint64, W *big.Int) {
	n := len(w)
	members := make([]interfaces.CommitteeMember, n)
	for i, x := range w {
		members[i] = interfaces.CommitteeMember{Id: []byte{byte('a' + i)}, Weight: primitives.MemberWeight(x)}
	}
	f := new(big.Int).Div(new(big.Int).Sub(W, big.NewInt(1)), big.NewInt(3))
	q := new(big.Int).Sub(W, f)
	cs := map[string]interface{}{"weights": fmt.Sprint(w), "ids": "byte"}
	r.Case(fmt.Sprintf("n%d total-above-2^64", n))
	N := 1 << uint(n)
	isQ := make([]bool, N)
	for s := 0; s < N; s++ {
		var ids []primitives.MemberId
		wt := new(big.Int)
		for i := 0; i < n; i++ {
			if s&(1<<uint(i)) != 0 {
				ids = append(ids, members[i].Id)
				wt.Add(wt, new(big.Int).SetUint64(w[i]))
			}
		}
		var hh bool
		isQ[s], _, _ = quorum.IsQuorum(ids, members)
		hh, _, _ = quorum.HasHonest(ids, members)
		r.Evals += 2
		if isQ[s] != (wt.Cmp(q) >= 0) || hh != (wt.Cmp(f) > 0) {
			r.Bad("C06:total-weight-overflows-64-bits", fmt.Sprintf("weights %v (total %s >= 2^64): subset %b of true weight %s: IsQuorum=%v HasHonest=%v, reference Q=%s f=%s", w, W, s, wt, isQ[s], hh, q, f), cs)
		}
	}
	for a := 0; a < N; a++ {
		for b := 0; b < N; b++ {
			if a&b == 0 && isQ[a] && isQ[b] {
				r.Bad("C06:total-weight-overflows-64-bits", fmt.Sprintf("weights %v (total %s >= 2^64): disjoint subsets %b and %b both pass IsQuorum", w, W, a, b), cs)
			}
			if a&b == a && isQ[a] && !isQ[b] {
				r.Bad("C06:total-weight-overflows-64-bits", fmt.Sprintf("weights %v (total %s >= 2^64): %b passes IsQuorum but its superset %b does not", w, W, a, b), cs)
			}
		}
	}
}

func c06(r *Rec, replay map[string]interface{}) {
	r.Rule = "weight vectors over the boundary grid {0,1,2,3,4,5,7,2^31,2^32+1,2^53-1..2^53+2,2^60+1,2^62+3, floor(2^64/n)-{0,1,2}} whose total fits in 64 bits: all ordered vectors for n<=3, all multisets (ascending and descending order) for larger n; per vector all subsets, all subset pairs, and a noisy id multiset per subset (duplicates, an unrelated outsider, the empty id, and near-miss outsiders that extend / truncate / zero-pad / re-case a member id); vectors of 2..4 small weights are repeated under six spellings of the member ids (single byte, 40-byte common prefix, zero-byte extensions of one another, common 40-byte suffix, letter-case variants, binary / invalid UTF-8). distinct_nontrivial = distinct (n, bit length of W, W mod 3) classes"
	if replay != nil {
		var w []uint64
		fmt.Sscan(trimBrackets(replay["case"].(map[string]interface{})["weights"].(string)), &w)
		ws := parseUints(replay["case"].(map[string]interface{})["weights"].(string))
		sch, _ := replay["case"].(map[string]interface{})["ids"].(string)
		if sch == "" {
			sch = "byte"
		}
		c06checkIds(r, ws, sch)
		return
	}
	maxN := 4
	if r.Tier == "thorough" {
		maxN = 6
	}
	for n := 1; n <= maxN; n++ {
		g := c06grid()
		top := ^uint64(0) / uint64(n)
		g = append(g, top, top-1, top-2)
		vec := make([]uint64, n)
		if n <= 3 {
			var rec func(i int)
			rec = func(i int) {
				if i == n {
					c06check(r, append([]uint64{}, vec...))
					return
				}
				for _, x := range g {
					vec[i] = x
					rec(i + 1)
				}
			}
			rec(0)
			continue
		}
		var rec func(i, from int)
		rec = func(i, from int) {
			if i == n {
				c06check(r, append([]uint64{}, vec...))
				rev := make([]uint64, n)
				for k := range vec {
					rev[n-1-k] = vec[k]
				}
				c06check(r, rev)
				return
			}
			for k := from; k < len(g); k++ {
				vec[i] = g[k]
				rec(i+1, k)
			}
		}
		rec(0, 0)
	}
	// committees whose total weight does not fit in 64 bits
	for _, v := range [][]uint64{{1 << 63, 1 << 63, 1, 1}, {1 << 62, 1 << 62, 1 << 62, 1 << 62}, {^uint64(0), 1}, {^uint64(0), ^uint64(0), ^uint64(0)}, {1 << 63, 1<<63 - 1, 1, 1}, {1<<63 + 5, 1 << 63, 7}} {
		c06checkIds(r, v, "byte")
	}
	r.Extra["max_committee_size"] = maxN
	r.Assume = []string{"weights are drawn from a boundary grid, not all of uint64", "64-bit platform (uint is 64 bits)", "committees whose total weight reaches 2^64: six explicit vectors only (recorded known finding: the sums wrap)"}
}

func trimBrackets(s string) string {
	if len(s) >= 2 && s[0] == '[' {
		return s[1 : len(s)-1]
	}
	return s
}

func parseUints(s string) []uint64 {
	var r []uint64
	var x uint64
	cur := false
	for _, c := range s {
		if c >= '0' && c <= '9' {
			x = x*10 + uint64(c-'0')
			cur = true
		} else if cur {
			r = append(r, x)
			x, cur = 0, false
		}
	}
	if cur {
		r = append(r, x)
	}
	return r
}
