package main

import (
	"fmt"
	"math/big"

	"verif/kit"
	"verif/pmc"
	"verif/ref"

	"github.com/orbs-network/lean-helix-go/services/interfaces"
	"github.com/orbs-network/lean-helix-go/services/messagesfactory"
	"github.com/orbs-network/lean-helix-go/services/preparedmessages"
	"github.com/orbs-network/lean-helix-go/services/randomseed"
	"github.com/orbs-network/lean-helix-go/services/termincommittee"
	"github.com/orbs-network/lean-helix-go/spec/types/go/primitives"
)

// C18: leader rotation is (view mod committee size) for every 64-bit view, never fails.
func init() { checks["C18"] = c18 }

func c18views(n int) []uint64 {
	set := map[uint64]bool{}
	for v := 0; v <= 4*n; v++ {
		set[uint64(v)] = true
	}
	for k := uint(0); k < 64; k++ {
		p := uint64(1) << k
		set[p], set[p-1], set[p+1] = true, true, true
	}
	for _, c := range []uint64{1 << 31, 1 << 32, 1 << 63, ^uint64(0)} {
		for d := uint64(0); d <= uint64(n)+2; d++ {
			set[c-d] = true
			set[c+d] = true
		}
	}
	r := make([]uint64, 0, len(set))
	for v := range set {
		r = append(r, v)
	}
	return r
}

func c18(r *Rec, replay map[string]interface{}) {
	r.Rule = "committee sizes 4..64 x views {0..4n} u {2^k, 2^k+-1} u neighbourhoods (+-(n+2)) of 2^31, 2^32, 2^63, 2^64-1 through the leader function; plus, behaviourally on real nodes (n=4,5,7; views from small to 2^64-1): which sender of a future-view PREPARE is treated as that view's leader, whose NEW_VIEW for view v is adopted (and which member is named as proposer to ValidateBlockProposal), which member is elected by a quorum of votes for view v, where the VIEW_CHANGE for v+1 is sent after a timeout in v, and whose PREPREPARE signature makes a prepared proof of view v-1 valid. distinct_nontrivial = distinct (n, view class) pairs where class = bit length of the view"
	maxN := 64
	for n := 4; n <= maxN; n++ {
		c := kit.EqualCommittee(n)
		members := c.Members()
		views := c18views(n)
		for _, v := range views {
			want := new(big.Int).Mod(new(big.Int).SetUint64(v), big.NewInt(int64(n))).Int64()
			var got primitives.MemberId
			p := guard(func() { got = termincommittee.VerifLeaderOf(primitives.View(v), members) })
			r.Case(fmt.Sprintf("n%d/bits%d", n, big.NewInt(0).SetUint64(v).BitLen()))
			cs := map[string]interface{}{"n": n, "view": fmt.Sprint(v)}
			if p != "" {
				r.Bad("C18:leader-panics", fmt.Sprintf("leader computation panics for view %d, committee size %d: %s", v, n, p), cs)
				continue
			}
			if !got.Equal(members[want].Id) {
				r.Bad("C18:leader-wrong", fmt.Sprintf("leader of view %d in a committee of %d is %s, expected member %d (%s)", v, n, got, want, members[want].Id), cs)
			}
		}
		// any n consecutive views hit every member exactly once
		for _, start := range []uint64{0, 7, 1<<31 - 2, 1<<63 - 3, ^uint64(0) - uint64(n) + 1} {
			seen := map[string]int{}
			bad := false
			for k := 0; k < n; k++ {
				if guard(func() { seen[string(termincommittee.VerifLeaderOf(primitives.View(start+uint64(k)), members))]++ }) != "" {
					bad = true
				}
			}
			r.Case("")
			if !bad && len(seen) != n {
				r.Bad("C18:not-round-robin", fmt.Sprintf("views %d..+%d of a committee of %d are led by %d distinct members only", start, n-1, n, len(seen)), map[string]interface{}{"n": n, "view": fmt.Sprint(start)})
			}
		}
	}
	// behavioural: a future-view PREPARE is stored unless its sender is the leader of that view
	for _, n := range []int{4, 7} {
		c := kit.EqualCommittee(n)
		w := pmc.NewWorld(c, false, nil)
		seed := randomseed.CalculateRandomSeed(nil)
		for _, v := range []uint64{1, 2, uint64(n), uint64(n) + 1, 1 << 31, 1<<32 + 1, 1<<63 - 1, 1 << 63, 1<<63 + 1, ^uint64(0) - 1, ^uint64(0)} {
			node := pmc.NewLNode(w, 0)
			node.Start()
			want := int(new(big.Int).Mod(new(big.Int).SetUint64(v), big.NewInt(int64(n))).Int64())
			for s := 1; s < n; s++ {
				f := messagesfactory.NewMessageFactory(kit.Instance, &kit.KeyManager{Me: c[s].ID}, c[s].ID, seed)
				blk := kit.NewBlock(1, "X")
				pm := f.CreatePrepareMessage(1, primitives.View(v), kit.HashOf(blk))
				before := len(node.Store.Rec)
				var raw *interfaces.ConsensusRawMessage = pm.ToConsensusRawMessage()
				p := guard(func() { node.V.Deliver(raw) })
				r.Case(fmt.Sprintf("behaviour n%d/bits%d", n, big.NewInt(0).SetUint64(v).BitLen()))
				cs := map[string]interface{}{"n": n, "view": fmt.Sprint(v), "sender": s}
				if p != "" {
					r.Bad("C18:leader-panics", fmt.Sprintf("delivering a PREPARE for view %d to a real node (committee of %d) panics: %s", v, n, p), cs)
					break
				}
				stored := len(node.Store.Rec) > before
				if stored == (s == want) {
					r.Bad("C18:behaviour-wrong-leader", fmt.Sprintf("PREPARE for view %d from member %d: stored=%v, but the leader of that view is member %d", v, s, stored, want), cs)
				}
			}
		}
	}
	c18roles(r)
	r.Sample(map[string]interface{}{"n": 7, "view": "9223372036854775808", "expected_leader_index": new(big.Int).Mod(new(big.Int).SetUint64(1<<63), big.NewInt(7)).Int64()})
	r.Sample(map[string]interface{}{"n": 64, "views": len(c18views(64))})
	r.Assume = []string{"views are drawn from dense and boundary classes, not all 2^64 values"}
}

// c18roles: every place where the real node decides "who leads view v" must agree with view mod n — for views a
// node can only reach by jumping (NEW_VIEW or votes naming a huge view), every member position, n not a power of two.
func c18roles(r *Rec) {
	bigmod := func(v uint64, n int) int {
		return int(new(big.Int).Mod(new(big.Int).SetUint64(v), big.NewInt(int64(n))).Int64())
	}
	seed := randomseed.CalculateRandomSeed(nil)
	for _, n := range []int{4, 5, 7} {
		c := kit.EqualCommittee(n)
		w := pmc.NewWorld(c, false, nil)
		fac := make([]*messagesfactory.MessageFactory, n)
		for i := range c {
			fac[i] = messagesfactory.NewMessageFactory(kit.Instance, &kit.KeyManager{Me: c[i].ID}, c[i].ID, seed)
		}
		q := n - (n-1)/3
		views := []uint64{1, 2, 3, uint64(n) - 1, uint64(n), uint64(n) + 1, 1<<31 - 1, 1 << 31, 1<<32 + 1, 1<<63 - 2, 1<<63 - 1, 1 << 63, 1<<63 + 1, 1<<63 + 2, 1<<63 + 3, ^uint64(0) - 3, ^uint64(0) - 2, ^uint64(0) - 1, ^uint64(0)}
		blk := kit.NewBlock(1, "X")
		votesFor := func(v uint64, skip int) []*interfaces.ViewChangeMessage {
			var vs []*interfaces.ViewChangeMessage
			for i := 0; i < n && len(vs) < q; i++ {
				if i != skip {
					vs = append(vs, fac[i].CreateViewChangeMessage(1, primitives.View(v), nil))
				}
			}
			return vs
		}
		for _, v := range views {
			want := bigmod(v, n)
			cls := fmt.Sprintf("roles n%d/bits%d", n, big.NewInt(0).SetUint64(v).BitLen())
			// (a) whose NEW_VIEW for view v is adopted by member `me`, and who is named as the proposer
			for _, me := range []int{0, n - 1} {
				for L := 0; L < n; L++ {
					if L == me {
						continue
					}
					node := pmc.NewLNode(w, me)
					node.Start()
					vs := votesFor(v, -1)
					ppb := fac[L].CreatePreprepareMessageContentBuilder(1, primitives.View(v), blk, kit.HashOf(blk))
					nv := fac[L].CreateNewViewMessage(1, primitives.View(v), ppb, interfaces.ExtractConfirmationsFromViewChangeMessages(vs), blk)
					preVals, preOuts := len(node.BU.Vals), len(node.Comm.Outs)
					cs := map[string]interface{}{"n": n, "view": fmt.Sprint(v), "sender": L, "me": me, "site": "new-view"}
					r.Case(cls)
					if p := guard(func() { node.V.Deliver(nv.ToConsensusRawMessage()) }); p != "" {
						r.Bad("C18:leader-panics", fmt.Sprintf("delivering a NEW_VIEW for view %d to a real node (committee of %d) panics: %s", v, n, p), cs)
						continue
					}
					adopted := uint64(node.V.S.View()) == v && len(node.Comm.Outs) > preOuts
					if adopted != (L == want) {
						r.Bad("C18:behaviour-wrong-leader", fmt.Sprintf("NEW_VIEW for view %d from member %d to member %d (committee of %d): adopted=%v, but the leader of that view is member %d", v, L, me, n, adopted, want), cs)
					}
					for _, vc := range node.BU.Vals[preVals:] {
						if vc.Leader != string(c[want].ID) {
							r.Bad("C18:behaviour-wrong-leader", fmt.Sprintf("ValidateBlockProposal for view %d (committee of %d) was told the proposer is %q, the leader of that view is member %d (%q)", v, n, vc.Leader, want, c[want].ID), cs)
						}
					}
					// (d) after adopting view v, a timeout sends the VIEW_CHANGE for v+1 to the leader of v+1
					if adopted && v != ^uint64(0) {
						next := bigmod(v+1, n)
						pre := len(node.Comm.Outs)
						cs2 := map[string]interface{}{"n": n, "view": fmt.Sprint(v + 1), "me": me, "site": "vote-destination"}
						r.Case(cls)
						if p := guard(func() { node.Step(pmc.Event{Kind: 't'}, nil, ref.Info{}, nil) }); p != "" || node.Dead != "" {
							r.Bad("C18:leader-panics", fmt.Sprintf("timeout in view %d (committee of %d) panics: %s %s", v, n, p, node.Dead), cs2)
							continue
						}
						if next != me {
							ok := false
							for _, o := range node.Comm.Outs[pre:] {
								if len(o.To) == 1 && string(o.To[0]) == string(c[next].ID) {
									ok = true
								}
							}
							if !ok {
								r.Bad("C18:behaviour-wrong-leader", fmt.Sprintf("member %d timed out in view %d (committee of %d): its VIEW_CHANGE for view %d did not go to member %d", me, v, n, v+1, next), cs2)
							}
						}
					}
				}
			}
			// (b) who is elected by a quorum of votes for view v
			for me := 0; me < n; me++ {
				node := pmc.NewLNode(w, me)
				node.Start()
				cs := map[string]interface{}{"n": n, "view": fmt.Sprint(v), "me": me, "site": "votes"}
				r.Case(cls)
				bad := false
				for _, vc := range votesFor(v, me) {
					if p := guard(func() { node.V.Deliver(vc.ToConsensusRawMessage()) }); p != "" {
						r.Bad("C18:leader-panics", fmt.Sprintf("delivering a VIEW_CHANGE for view %d to a real node (committee of %d) panics: %s", v, n, p), cs)
						bad = true
						break
					}
				}
				if bad {
					continue
				}
				elected := uint64(node.V.S.View()) == v
				if elected != (me == want) {
					r.Bad("C18:behaviour-wrong-leader", fmt.Sprintf("member %d received a quorum of votes for view %d (committee of %d): elected=%v, but the leader of that view is member %d", me, v, n, elected, want), cs)
				}
			}
			// (c) whose PREPREPARE signature makes a prepared proof of view v-1 valid (votes to the leader of v)
			if v >= 2 {
				pv := v - 1
				wantP := bigmod(pv, n)
				for L := 0; L < n; L++ {
					node := pmc.NewLNode(w, want)
					node.Start()
					var preps []*interfaces.PrepareMessage
					for i := 0; i < n && len(preps) < q-1; i++ {
						if i != L {
							preps = append(preps, fac[i].CreatePrepareMessage(1, primitives.View(pv), kit.HashOf(blk)))
						}
					}
					voter := (want + 1) % n
					vc := fac[voter].CreateViewChangeMessage(1, primitives.View(v), &preparedmessages.PreparedMessages{
						PreprepareMessage: fac[L].CreatePreprepareMessage(1, primitives.View(pv), blk, kit.HashOf(blk)), PrepareMessages: preps})
					before := len(node.Store.Rec)
					cs := map[string]interface{}{"n": n, "view": fmt.Sprint(pv), "sender": L, "site": "proof-leader"}
					r.Case(cls)
					if p := guard(func() { node.V.Deliver(vc.ToConsensusRawMessage()) }); p != "" {
						r.Bad("C18:leader-panics", fmt.Sprintf("delivering a vote with a proof of view %d (committee of %d) panics: %s", pv, n, p), cs)
						continue
					}
					stored := len(node.Store.Rec) > before
					if stored != (L == wantP) {
						r.Bad("C18:behaviour-wrong-leader", fmt.Sprintf("vote for view %d with a prepared proof of view %d whose PREPREPARE is signed by member %d (committee of %d): counted=%v, but the leader of view %d is member %d", v, pv, L, n, stored, pv, wantP), cs)
					}
				}
			}
		}
	}
}
