package main

import (
	"fmt"
	"math/big"

	"verif/kit"
	"verif/pmc"

	"github.com/orbs-network/lean-helix-go/services/interfaces"
	"github.com/orbs-network/lean-helix-go/services/messagesfactory"
	"github.com/orbs-network/lean-helix-go/services/randomseed"
	"github.com/orbs-network/lean-helix-go/services/termincommittee"
	"github.com/orbs-network/lean-helix-go/spec/types/go/primitives"
)

// C18: leader rotation is (view mod committee size) for every 64-bit view, never fails.
func init() { checks["C18"] = c18 }

func c18views(n int) []uint64 {
	set := map[uint64]bool{}
	for v := 0; v <= 4*n; v++ {
		set[uint64(v)] = true
	}
	for k := uint(0); k < 64; k++ {
		p := uint64(1) << k
		set[p], set[p-1], set[p+1] = true, true, true
	}
	for _, c := range []uint64{1 << 31, 1 << 32, 1 << 63, ^uint64(0)} {
		for d := uint64(0); d <= uint64(n)+2; d++ {
			set[c-d] = true
			set[c+d] = true
		}
	}
	r := make([]uint64, 0, len(set))
	for v := range set {
		r = append(r, v)
	}
	return r
}

func c18(r *Rec, replay map[string]interface{}) {
	r.Rule = "committee sizes 4..64 x views {0..4n} u {2^k, 2^k+-1} u neighbourhoods (+-(n+2)) of 2^31, 2^32, 2^63, 2^64-1 through the leader function; plus, behaviourally on a real node (n=4,7), which sender of a future-view PREPARE is treated as that view's leader. distinct_nontrivial = distinct (n, view class) pairs where class = bit length of the view"
	maxN := 64
	for n := 4; n <= maxN; n++ {
		c := kit.EqualCommittee(n)
		members := c.Members()
		views := c18views(n)
		for _, v := range views {
			want := new(big.Int).Mod(new(big.Int).SetUint64(v), big.NewInt(int64(n))).Int64()
			var got primitives.MemberId
			p := guard(func() { got = termincommittee.VerifLeaderOf(primitives.View(v), members) })
			r.Case(fmt.Sprintf("n%d/bits%d", n, big.NewInt(0).SetUint64(v).BitLen()))
			cs := map[string]interface{}{"n": n, "view": fmt.Sprint(v)}
			if p != "" {
				r.Bad("C18:leader-panics", fmt.Sprintf("leader computation panics for view %d, committee size %d: %s", v, n, p), cs)
				continue
			}
			if !got.Equal(members[want].Id) {
				r.Bad("C18:leader-wrong", fmt.Sprintf("leader of view %d in a committee of %d is %s, expected member %d (%s)", v, n, got, want, members[want].Id), cs)
			}
		}
		// any n consecutive views hit every member exactly once
		for _, start := range []uint64{0, 7, 1<<31 - 2, 1<<63 - 3, ^uint64(0) - uint64(n) + 1} {
			seen := map[string]int{}
			bad := false
			for k := 0; k < n; k++ {
				if guard(func() { seen[string(termincommittee.VerifLeaderOf(primitives.View(start+uint64(k)), members))]++ }) != "" {
					bad = true
				}
			}
			r.Case("")
			if !bad && len(seen) != n {
				r.Bad("C18:not-round-robin", fmt.Sprintf("views %d..+%d of a committee of %d are led by %d distinct members only", start, n-1, n, len(seen)), map[string]interface{}{"n": n, "view": fmt.Sprint(start)})
			}
		}
	}
	// behavioural: a future-view PREPARE is stored unless its sender is the leader of that view
	for _, n := range []int{4, 7} {
		c := kit.EqualCommittee(n)
		w := pmc.NewWorld(c, false, nil)
		seed := randomseed.CalculateRandomSeed(nil)
		for _, v := range []uint64{1, 2, uint64(n), uint64(n) + 1, 1 << 31, 1<<32 + 1, 1<<63 - 1, 1 << 63, 1<<63 + 1, ^uint64(0) - 1, ^uint64(0)} {
			node := pmc.NewLNode(w, 0)
			node.Start()
			want := int(new(big.Int).Mod(new(big.Int).SetUint64(v), big.NewInt(int64(n))).Int64())
			for s := 1; s < n; s++ {
				f := messagesfactory.NewMessageFactory(kit.Instance, &kit.KeyManager{Me: c[s].ID}, c[s].ID, seed)
				blk := kit.NewBlock(1, "X")
				pm := f.CreatePrepareMessage(1, primitives.View(v), kit.HashOf(blk))
				before := len(node.Store.Rec)
				var raw *interfaces.ConsensusRawMessage = pm.ToConsensusRawMessage()
				p := guard(func() { node.V.Deliver(raw) })
				r.Case(fmt.Sprintf("behaviour n%d/bits%d", n, big.NewInt(0).SetUint64(v).BitLen()))
				cs := map[string]interface{}{"n": n, "view": fmt.Sprint(v), "sender": s}
				if p != "" {
					r.Bad("C18:leader-panics", fmt.Sprintf("delivering a PREPARE for view %d to a real node (committee of %d) panics: %s", v, n, p), cs)
					break
				}
				stored := len(node.Store.Rec) > before
				if stored == (s == want) {
					r.Bad("C18:behaviour-wrong-leader", fmt.Sprintf("PREPARE for view %d from member %d: stored=%v, but the leader of that view is member %d", v, s, stored, want), cs)
				}
			}
		}
	}
	r.Sample(map[string]interface{}{"n": 7, "view": "9223372036854775808", "expected_leader_index": new(big.Int).Mod(new(big.Int).SetUint64(1<<63), big.NewInt(7)).Int64()})
	r.Sample(map[string]interface{}{"n": 64, "views": len(c18views(64))})
	r.Assume = []string{"views are drawn from dense and boundary classes, not all 2^64 values"}
}
