// enum: engine E3 — bounded exhaustive enumeration of inputs / operation sequences of real sequential
// components against boring reference models. Usage: enum -prop C06 -tier quick|thorough | enum -prop C06 -replay file
package main

import (
	"encoding/json"
	"flag"
	"fmt"
	"os"
	"sort"
	"strings"
	"time"

	"verif/ev"
)

// Rec collects what a run covered.
type Rec struct {
	Prop        string
	Tier        string
	Evals       int
	States      int
	Transitions int
	Validated   int
	distinct    map[string]bool
	Samples     []interface{}
	Viol        []Viol
	seenFP      map[string]bool
	Known       map[string]string
	KnownHit    map[string]bool
	Extra       map[string]interface{}
	Rule        string
	Exhaustive  bool
	Assume      []string
}

type Viol struct {
	FP     string      `json:"fingerprint"`
	Detail string      `json:"detail"`
	Case   interface{} `json:"case"`
}

func NewRec(prop, tier string) *Rec {
	r := &Rec{Prop: prop, Tier: tier, distinct: map[string]bool{}, seenFP: map[string]bool{}, Known: map[string]string{}, KnownHit: map[string]bool{}, Extra: map[string]interface{}{}, Exhaustive: true}
	for _, k := range ev.Known(prop) {
		r.Known[k.FP] = k.Text
	}
	return r
}

// Case counts one evaluated case; class is the key of its non-trivial equivalence class ("" = trivial).
func (r *Rec) Case(class string) {
	r.Evals++
	if class != "" {
		r.distinct[class] = true
	}
}

func (r *Rec) Sample(s interface{}) {
	if len(r.Samples) < 6 {
		r.Samples = append(r.Samples, s)
	}
}

// Bad records a violation (first per fingerprint is kept; known fingerprints are only noted).
func (r *Rec) Bad(fp, detail string, c interface{}) {
	if _, ok := r.Known[fp]; ok {
		r.KnownHit[fp] = true
		return
	}
	if r.seenFP[fp] {
		return
	}
	r.seenFP[fp] = true
	r.Viol = append(r.Viol, Viol{fp, detail, c})
}

func sanitize(s string) string {
	return strings.Map(func(r rune) rune {
		if r >= 'a' && r <= 'z' || r >= 'A' && r <= 'Z' || r >= '0' && r <= '9' || r == '-' {
			return r
		}
		return '_'
	}, s)
}

func (r *Rec) Finish(start time.Time) int {
	e := ev.New(r.Prop, r.Tier)
	e.Coverage["evaluations"] = r.Evals
	e.Coverage["distinct_nontrivial"] = len(r.distinct)
	e.Coverage["rule"] = r.Rule
	if r.States > 0 {
		e.Coverage["states"] = r.States
		e.Coverage["transitions"] = r.Transitions
		e.Coverage["traces_validated_against_impl"] = r.Validated
	}
	if len(r.Samples) == 0 {
		r.Samples = append(r.Samples, "no sample recorded")
	}
	e.Coverage["samples"] = r.Samples
	e.Coverage["exhaustive"] = r.Exhaustive
	for k, v := range r.Extra {
		e.Coverage[k] = v
	}
	e.Assumptions = r.Assume
	e.Violations = len(r.Viol)
	e.Write(start)
	fps := make([]string, 0, len(r.KnownHit))
	for fp := range r.KnownHit {
		fps = append(fps, fp)
	}
	sort.Strings(fps)
	for _, fp := range fps {
		fmt.Printf("KNOWN-FINDING: property=%s %s\n", r.Prop, r.Known[fp])
	}
	for _, v := range r.Viol {
		path := ev.ReplayPath(r.Prop, sanitize(v.FP))
		b, _ := json.MarshalIndent(map[string]interface{}{"property": r.Prop, "engine": "enum", "fingerprint": v.FP, "detail": v.Detail, "case": v.Case}, "", " ")
		os.WriteFile(path, b, 0644)
		fmt.Fprintf(os.Stderr, "  %s: %s\n", v.FP, v.Detail)
		fmt.Printf("VIOLATION property=%s replay=%s\n", r.Prop, path)
	}
	if len(r.Viol) > 0 {
		return 1
	}
	return 0
}

// guard runs f and converts a panic into a string.
func guard(f func()) (p string) {
	defer func() {
		if r := recover(); r != nil {
			p = fmt.Sprint(r)
		}
	}()
	f()
	return ""
}

var checks = map[string]func(r *Rec, replay map[string]interface{}){}

func main() {
	prop := flag.String("prop", "", "property id")
	tier := flag.String("tier", "quick", "quick|thorough")
	replay := flag.String("replay", "", "replay file")
	flag.String("part", "", "sub-check of a property decided by several engines (formula, registry)")
	flag.Parse()
	part := flag.Lookup("part").Value.String()
	name := *prop
	if part != "" {
		name = *prop + ":" + part
	}
	f, ok := checks[name]
	if !ok {
		fmt.Fprintln(os.Stderr, "enum: unknown property", *prop)
		os.Exit(2)
	}
	start := time.Now()
	r := NewRec(*prop, *tier)
	if *replay != "" {
		b, err := os.ReadFile(*replay)
		if err != nil {
			fmt.Fprintln(os.Stderr, err)
			os.Exit(2)
		}
		var m map[string]interface{}
		json.Unmarshal(b, &m)
		r.Known = map[string]string{}
		f(r, m)
		for _, v := range r.Viol {
			fmt.Printf("%s: %s\n", v.FP, v.Detail)
		}
		if len(r.Viol) > 0 {
			fmt.Printf("VIOLATION property=%s replay=%s\n", *prop, *replay)
			os.Exit(1)
		}
		os.Exit(0)
	}
	f(r, nil)
	os.Exit(r.Finish(start))
}
