package main

import (
	"bytes"
	"context"
	"fmt"
	"math"
	"math/big"
	"runtime"
	"strings"
	"sync"

	"verif/kit"
	"verif/ref"

	lh "github.com/orbs-network/lean-helix-go"
	"github.com/orbs-network/lean-helix-go/services/interfaces"
	"github.com/orbs-network/lean-helix-go/services/randomseed"
	"github.com/orbs-network/lean-helix-go/spec/types/go/primitives"
	"github.com/orbs-network/lean-helix-go/spec/types/go/protocol"
)

// C02: ValidateBlockConsensus accepts only genuine commit certificates; never crashes.
func init() { checks["C02"] = c02 }

type c02desc struct {
	Committee int    // index into c02committees
	Signers   int    // bitmask of members signing
	Extra     string // none | dup | outsider | badsig
	MsgType   int    // header message type 0..5
	InstOK    bool
	HDelta    int // proof height - block height
	HashOK    bool
	View      uint64
	Seed      string // valid | wrongheight | garbage | empty
	Prev      string // nil | valid | garbage
	Soft      bool
	BlockNil  bool
}

var c02committees = []kit.Committee{
	kit.EqualCommittee(4),
	kit.WeightedCommittee(1, 2, 3, 4),
	kit.WeightedCommittee(1, 1, 1, 3),
	kit.EqualCommittee(5),
	kit.WeightedCommittee(0, 1, 1, 1, 1),
	kit.WeightedCommittee(0, 0, 0, 0),         // total weight 0: no subset is a quorum, nothing may be accepted
	kit.LongIDCommittee(4),                    // member ids of 42 bytes that share their first 41 bytes
	kit.WeightedCommittee(1<<63, 1<<63, 1, 1), // total weight 2^64+2 does not fit in 64 bits (recorded known finding: the sums wrap)
}

const c02height = 5

func c02validator(c kit.Committee) *lh.VerifNode {
	id := c[0].ID
	// committees rotate with the height: the members of every OTHER height are different identities
	rot := func(h primitives.BlockHeight) kit.Committee {
		if h == c02height {
			return c
		}
		return c02other(c)
	}
	cfg := &interfaces.Config{InstanceId: kit.Instance, Communication: &kit.Comm{}, Membership: &kit.Membership{Me: id, Committee: c, ForHeight: rot},
		BlockUtils: &kit.BlockUtils{Me: id}, KeyManager: &kit.KeyManager{Me: id}, OverrideElectionTrigger: &kit.FakeTrigger{}, Storage: kit.NewStore(false)}
	return lh.NewVerifNode(cfg, func(context.Context, interfaces.Block, []byte) error { return nil }, nil)
}

// c02other: the committee of the neighbouring heights (same weights, other members).
func c02other(c kit.Committee) kit.Committee {
	o := make(kit.Committee, len(c))
	for i, m := range c {
		o[i] = kit.Member{ID: []byte(fmt.Sprintf("m%d", i)), Weight: m.Weight}
	}
	return o
}

func c02prev(kind string) []byte {
	switch kind {
	case "valid":
		return (&protocol.BlockProofBuilder{BlockRef: &protocol.BlockRefBuilder{MessageType: protocol.LEAN_HELIX_COMMIT, InstanceId: kit.Instance, BlockHeight: c02height - 1, BlockHash: []byte("prev")},
			RandomSeedSignature: []byte("previous-seed-signature")}).Build().Raw()
	case "garbage":
		return []byte{0xde, 0xad, 0xbe}
	}
	return nil
}

func c02prevSeed(prev []byte) (seed uint64, p string) {
	p = guard(func() { seed = randomseed.CalculateRandomSeed(protocol.BlockProofReader(prev).RandomSeedSignature()) })
	return
}

// build the proof described by d; returns bytes, block, prev proof
func c02build(d c02desc) ([]byte, interfaces.Block, []byte) {
	c := c02committees[d.Committee]
	blk := kit.NewBlock(c02height, "B")
	hash := kit.HashOf(blk)
	if !d.HashOK {
		hash = kit.HashOf(kit.NewBlock(c02height, "OTHER"))
	}
	inst := kit.Instance
	if !d.InstOK {
		inst++
	}
	ph := primitives.BlockHeight(c02height + d.HDelta)
	hdr := &protocol.BlockRefBuilder{MessageType: protocol.MessageType(d.MsgType), InstanceId: inst, BlockHeight: ph, View: primitives.View(d.View), BlockHash: hash}
	raw := hdr.Build().Raw()
	var nodes []*protocol.SenderSignatureBuilder
	first := -1
	for i, m := range c {
		if d.Signers&(1<<uint(i)) != 0 {
			if first < 0 {
				first = i
			}
			nodes = append(nodes, &protocol.SenderSignatureBuilder{MemberId: m.ID, Signature: kit.Sig("C", m.ID, ph, raw)})
		}
	}
	switch d.Extra {
	case "othercommittee": // signed by the (same-weight) committee of the previous height instead of this height's
		nodes = nil
		for i, m := range c02other(c) {
			if d.Signers&(1<<uint(i)) != 0 {
				nodes = append(nodes, &protocol.SenderSignatureBuilder{MemberId: m.ID, Signature: kit.Sig("C", m.ID, ph, raw)})
			}
		}
	case "strangers": // signed by the committee that the Membership returns for any other reference time than the previous block's
		nodes = nil
		for i, m := range kit.Strangers(c) {
			if d.Signers&(1<<uint(i)) != 0 {
				nodes = append(nodes, &protocol.SenderSignatureBuilder{MemberId: m.ID, Signature: kit.Sig("C", m.ID, ph, raw)})
			}
		}
	case "dup":
		if first >= 0 {
			nodes = append(nodes, &protocol.SenderSignatureBuilder{MemberId: c[first].ID, Signature: kit.Sig("C", c[first].ID, ph, raw)})
		}
	case "outsider":
		nodes = append(nodes, &protocol.SenderSignatureBuilder{MemberId: []byte("xo"), Signature: kit.Sig("C", []byte("xo"), ph, raw)})
	case "badsig":
		if len(nodes) > 0 {
			nodes[len(nodes)-1].Signature = []byte("garbage")
		}
	}
	prev := c02prev(d.Prev)
	seed, _ := c02prevSeed(prev)
	seedBytes := randomseed.RandomSeedToBytes(seed)
	var seedSig []byte
	switch d.Seed {
	case "valid":
		seedSig = kit.MasterSeedSig(primitives.BlockHeight(c02height), kit.SeedDigest(seedBytes))
	case "wrongheight":
		seedSig = kit.MasterSeedSig(primitives.BlockHeight(c02height+1), kit.SeedDigest(seedBytes))
	case "garbage":
		seedSig = []byte("garbage-seed")
	}
	proof := (&protocol.BlockProofBuilder{BlockRef: hdr, Nodes: nodes, RandomSeedSignature: seedSig}).Build().Raw()
	var b interfaces.Block = blk
	if d.BlockNil {
		b = nil
	}
	return proof, b, prev
}

// reference acceptance predicate over parsed proof bytes (used for structured and byte-level cases alike)
func c02ref(c kit.Committee, proof []byte, block interfaces.Block, prev []byte, soft bool) (ok bool, why string) {
	r := ref.NewRules(c)
	if block == nil {
		return false, "nil block"
	}
	var res bool
	p := guard(func() {
		pr := protocol.BlockProofReader(proof)
		br := pr.BlockRef()
		if br.MessageType() != protocol.LEAN_HELIX_COMMIT {
			why = "not a COMMIT certificate"
			return
		}
		if br.InstanceId() != kit.Instance {
			why = "other instance"
			return
		}
		if br.BlockHeight() != block.Height() {
			why = "other height"
			return
		}
		if !bytes.Equal(br.BlockHash(), kit.HashOf(block)) {
			why = "hash does not match the block"
			return
		}
		ids := map[string]bool{}
		it := pr.NodesIterator()
		for it.HasNext() {
			s := it.NextNodes()
			id := string(s.MemberId())
			if ids[id] {
				why = "duplicate signer"
				return
			}
			if !r.Member(id) {
				why = "signer outside the committee"
				return
			}
			if !bytes.Equal(kit.Sig("C", s.MemberId(), br.BlockHeight(), br.Raw()), s.Signature()) {
				why = "signature does not verify"
				return
			}
			ids[id] = true
		}
		if soft && !r.HasHonest(ids) || !soft && !r.IsQuorum(ids) {
			why = "insufficient weight"
			return
		}
		seed := randomseed.CalculateRandomSeed(protocol.BlockProofReader(prev).RandomSeedSignature())
		if len(pr.RandomSeedSignature()) == 0 || !bytes.Equal(pr.RandomSeedSignature(), kit.MasterSeedSig(br.BlockHeight(), kit.SeedDigest(randomseed.RandomSeedToBytes(seed)))) {
			why = "random seed signature does not verify"
			return
		}
		res = true
	})
	if p != "" {
		return false, "unparsable: " + p
	}
	return res, why
}

type c02case struct {
	Desc     *c02desc `json:"desc,omitempty"`
	Proof    string   `json:"proof_hex"`
	Prev     string   `json:"prev_hex"`
	Comm     int      `json:"committee"`
	Soft     bool     `json:"soft"`
	BlockNil bool     `json:"block_nil"`
}

func c02eval(r *Rec, mu *sync.Mutex, v *lh.VerifNode, cm int, proof []byte, block interfaces.Block, prev []byte, soft bool, d *c02desc, class string) (accepted bool) {
	var err error
	p := guard(func() {
		err = v.W.ValidateBlockConsensus(context.Background(), block, proof, block0(block), prev, soft)
	})
	// the same call without / with an unrelated previous block (a syncing consumer may not have it): only "never panics"
	// is checked here (the committee then depends on the fake Membership's answer for another reference time)
	pPrev := guard(func() {
		v.W.ValidateBlockConsensus(context.Background(), block, proof, nil, prev, soft)
		v.W.ValidateBlockConsensus(context.Background(), block, proof, kit.NewBlock(c02height+7, "unrelated"), prev, soft)
	})
	var ids []primitives.MemberId
	p2 := guard(func() { ids, _ = lh.GetMemberIdsFromBlockProof(proof) })
	want, why := c02ref(c02committees[cm], proof, block, prev, soft)
	cs := c02case{d, fmt.Sprintf("%x", proof), fmt.Sprintf("%x", prev), cm, soft, block == nil}
	mu.Lock()
	defer mu.Unlock()
	r.Case(class)
	if p != "" {
		r.Bad("C02:validate-panics", "ValidateBlockConsensus panics: "+p, cs)
		return false
	}
	if pPrev != "" {
		r.Bad("C02:validate-panics", "ValidateBlockConsensus panics when the previous block is missing or unrelated: "+pPrev, cs)
		return false
	}
	if p2 != "" {
		r.Bad("C02:getmemberids-panics", "GetMemberIdsFromBlockProof panics: "+p2, cs)
	}
	if err == nil && !want && c02overflows(c02committees[cm]) {
		r.Bad("C02:accepted-with-committee-weight-above-64-bits", fmt.Sprintf("ValidateBlockConsensus accepted a proof that is not a genuine commit certificate (%s) for a committee whose total weight does not fit in 64 bits", why), cs)
	} else if err == nil && !want {
		r.Bad("C02:accepted-"+sanitize(why), fmt.Sprintf("ValidateBlockConsensus accepted a proof that is not a genuine commit certificate: %s", why), cs)
	}
	if d != nil && p2 == "" { // well-formed: ids must be exactly the node ids
		n := 0
		it := protocol.BlockProofReader(proof).NodesIterator()
		for it.HasNext() {
			if n >= len(ids) || !ids[n].Equal(it.NextNodes().MemberId()) {
				r.Bad("C02:getmemberids-wrong", "GetMemberIdsFromBlockProof does not return the proof's node ids", cs)
				break
			}
			n++
		}
	}
	return err == nil
}

func c02overflows(c kit.Committee) bool {
	sum := new(big.Int)
	for _, m := range c {
		sum.Add(sum, new(big.Int).SetUint64(m.Weight))
	}
	return sum.BitLen() > 64
}

func block0(b interfaces.Block) interfaces.Block {
	if b == nil {
		return nil
	}
	return kit.NewBlock(uint64(b.Height())-1, "prev")
}

func c02(r *Rec, replay map[string]interface{}) {
	r.Rule = "structured: committees {4 equal,(1,2,3,4),(1,1,1,3),5 equal,(0,1,1,1,1),(0,0,0,0),4 equal with 42-byte ids sharing a 41-byte prefix,(2^63,2^63,1,1) whose total exceeds 64 bits} x every signer subset x {none,+duplicate,+outsider with valid key,+bad signature, signed by the rotating committee of the previous height, signed by the committee the Membership returns for any reference time other than the previous block's} x header type 0..5 x instance {=,!=} x height {-1,0,+1} x hash {block's, other} x view {0,1,2^64-1} x seed signature {valid, wrong height, garbage, empty} x previous proof {nil, valid, garbage} x {strict, soft} x block {ok, nil} (quick: at most two header/seed/prev deviations per case; thorough: full product), all signatures genuinely valid over the (possibly wrong) header; byte level: every truncation and every offset x {0x00,0xFF,+1,-1} mutation of base proofs. Oracle: acceptance implies the independent reference predicate over the re-parsed bytes; never panics. distinct_nontrivial = distinct (committee, weight class of signer set, deviation set, mode) classes"
	validators := make([]*lh.VerifNode, len(c02committees))
	for i, c := range c02committees {
		validators[i] = c02validator(c)
	}
	var mu sync.Mutex
	if replay != nil {
		m := replay["case"].(map[string]interface{})
		var proof, prev []byte
		fmt.Sscanf(m["proof_hex"].(string), "%x", &proof)
		fmt.Sscanf(m["prev_hex"].(string), "%x", &prev)
		cm := int(m["committee"].(float64))
		var b interfaces.Block = kit.NewBlock(c02height, "B")
		if m["block_nil"].(bool) {
			b = nil
		}
		c02eval(r, &mu, validators[cm], cm, proof, b, prev, m["soft"].(bool), nil, "replay")
		return
	}
	full := r.Tier == "thorough"
	accepted := int64(0)
	jobs := make(chan c02desc, 1024)
	var wg sync.WaitGroup
	for w := 0; w < 16; w++ {
		wg.Add(1)
		go func() {
			defer wg.Done()
			vs := make([]*lh.VerifNode, len(c02committees))
			for i, c := range c02committees {
				vs[i] = c02validator(c)
			}
			for d := range jobs {
				proof, blk, prev := c02build(d)
				dd := d
				c := c02committees[d.Committee]
				rl := ref.NewRules(c)
				ids := map[string]bool{}
				for i, m := range c {
					if d.Signers&(1<<uint(i)) != 0 {
						ids[string(m.ID)] = true
					}
				}
				wc := "low"
				if rl.IsQuorum(ids) {
					wc = "quorum"
				} else if rl.HasHonest(ids) {
					wc = "honest"
				}
				class := fmt.Sprintf("c%d/%s/%s/t%d i%v h%d x%v v%d/%s/%s/soft%v/nil%v", d.Committee, wc, d.Extra, d.MsgType, d.InstOK, d.HDelta, d.HashOK, minU(d.View, 2), d.Seed, d.Prev, d.Soft, d.BlockNil)
				if c02eval(r, &mu, vs[d.Committee], d.Committee, proof, blk, prev, d.Soft, &dd, class) {
					mu.Lock()
					accepted++
					if len(r.Samples) < 3 {
						r.Sample(map[string]interface{}{"accepted": dd, "proof_hex": fmt.Sprintf("%x", proof)})
					}
					mu.Unlock()
				}
			}
		}()
	}
	for ci, c := range c02committees {
		for s := 0; s < 1<<uint(len(c)); s++ {
			for _, extra := range []string{"none", "dup", "outsider", "badsig", "othercommittee", "strangers"} {
				for mt := 0; mt <= 5; mt++ {
					for _, inst := range []bool{true, false} {
						for _, hd := range []int{0, -1, 1} {
							for _, hash := range []bool{true, false} {
								for _, view := range []uint64{0, 1, math.MaxUint64} {
									for _, seed := range []string{"valid", "wrongheight", "garbage", "empty"} {
										for _, prev := range []string{"nil", "valid", "garbage"} {
											for _, soft := range []bool{false, true} {
												for _, bn := range []bool{false, true} {
													dev := 0
													if mt != int(protocol.LEAN_HELIX_COMMIT) {
														dev++
													}
													if !inst {
														dev++
													}
													if hd != 0 {
														dev++
													}
													if !hash {
														dev++
													}
													if view != 0 {
														dev++
													}
													if seed != "valid" {
														dev++
													}
													if prev != "nil" {
														dev++
													}
													if bn {
														dev++
													}
													if !full && dev > 2 {
														continue
													}
													jobs <- c02desc{ci, s, extra, mt, inst, hd, hash, view, seed, prev, soft, bn}
												}
											}
										}
									}
								}
							}
						}
					}
				}
			}
		}
	}
	close(jobs)
	wg.Wait()
	structured := r.Evals
	byteAccepted := c02bytes(r, &mu, validators)
	r.Extra["structured_cases"] = structured
	r.Extra["byte_level_cases"] = r.Evals - structured
	r.Extra["accepted_structured"] = accepted
	r.Extra["accepted_byte_level"] = byteAccepted
	r.Extra["full_product"] = full
	r.Assume = []string{"harness key manager: signatures are unforgeable keyed hashes; aggregated seed signature verifies against the master key", "field values are drawn from boundary classes"}
	_ = big.NewInt
}

func minU(a, b uint64) uint64 {
	if a < b {
		return a
	}
	return b
}

// c02bytes: byte-level half (also run as C12's API part): every truncation and single-byte mutation of base proofs.
func c02bytes(r *Rec, mup *sync.Mutex, validators []*lh.VerifNode) int {
	// ---- byte level
	bases := []c02desc{
		{0, 0b0111, "none", 3, true, 0, true, 0, "valid", "nil", false, false},
		{1, 0b1100, "none", 3, true, 0, true, 1, "valid", "valid", false, false},
		{3, 0b11110, "none", 3, true, 0, true, 0, "valid", "nil", true, false},
		{0, 0b1111, "none", 3, true, 0, true, math.MaxUint64, "valid", "nil", false, false},
		{2, 0b1000, "none", 3, true, 0, true, 0, "valid", "nil", true, false},
		{0, 0b0011, "outsider", 3, true, 0, true, 0, "valid", "nil", true, false},
	}
	stride := 1
	byteAccepted := 0
	for bi, d := range bases {
		proof, blk, prev := c02build(d)
		v := validators[d.Committee]
		for l := 0; l <= len(proof); l++ {
			if c02eval(r, mup, v, d.Committee, append([]byte{}, proof[:l]...), blk, prev, d.Soft, nil, fmt.Sprintf("trunc/b%d/%d", bi, l)) {
				byteAccepted++
			}
		}
		for off := 0; off < len(proof); off += stride {
			for k, f := range []func(byte) byte{func(byte) byte { return 0 }, func(byte) byte { return 0xff }, func(b byte) byte { return b + 1 }, func(b byte) byte { return b - 1 }} {
				m := append([]byte{}, proof...)
				m[off] = f(m[off])
				if m[off] == proof[off] {
					continue
				}
				if c02eval(r, mup, v, d.Committee, m, blk, prev, d.Soft, nil, fmt.Sprintf("mut/b%d/%d/%d", bi, off, k)) {
					byteAccepted++
				}
			}
		}
		// every aligned 32-bit word replaced by a boundary value (length / offset fields: zero, huge, wrapping)
		for off := 0; off+4 <= len(proof); off += 4 {
			for _, w := range []uint32{0, 0x7fffffff, 0x80000000, 0xfffffff8, 0xfffffffc, 0xfffffffd, 0xffffffff} {
				m := append([]byte{}, proof...)
				m[off], m[off+1], m[off+2], m[off+3] = byte(w), byte(w>>8), byte(w>>16), byte(w>>24)
				if c02eval(r, mup, v, d.Committee, m, blk, prev, d.Soft, nil, fmt.Sprintf("word/b%d/%d/%x", bi, off, w)) {
					byteAccepted++
				}
				if off+4 <= len(prev) {
					pm := append([]byte{}, prev...)
					pm[off], pm[off+1], pm[off+2], pm[off+3] = byte(w), byte(w>>8), byte(w>>16), byte(w>>24)
					c02eval(r, mup, v, d.Committee, proof, blk, pm, d.Soft, nil, fmt.Sprintf("prevword/b%d/%d/%x", bi, off, w))
				}
			}
		}
		// mutated previous proof
		for off := 0; off < len(prev); off++ {
			m := append([]byte{}, prev...)
			m[off] ^= 0xff
			c02eval(r, mup, v, d.Committee, proof, blk, m, d.Soft, nil, fmt.Sprintf("prevmut/b%d/%d", bi, off))
		}
	}
	return byteAccepted
}

func init() { checks["C12:api"] = c12api }

// C12 (API half): ValidateBlockConsensus and GetMemberIdsFromBlockProof tolerate every byte string.
func c12api(r *Rec, replay map[string]interface{}) {
	r.Rule = "every truncation and every offset x {0x00,0xFF,+1,-1} mutation of six base block proofs (and of the previous proof) through ValidateBlockConsensus (strict and soft) and GetMemberIdsFromBlockProof; every aligned 32-bit word of those proofs replaced by a boundary value {0, 2^31-1, 2^31, 2^32-8, 2^32-4, 2^32-3, 2^32-1}; every proof and previous proof of one to three 32-bit words over a 14-value boundary grid; plus nil / empty / one-byte proofs and nil block: no panic, and acceptance only of genuine certificates. distinct_nontrivial = distinct mutated byte strings"
	validators := make([]*lh.VerifNode, len(c02committees))
	for i, c := range c02committees {
		validators[i] = c02validator(c)
	}
	var mu sync.Mutex
	if replay != nil {
		if fp, _ := replay["fingerprint"].(string); strings.Contains(fp, "parse-cost") {
			c12parseCost(r)
		} else {
			c02(r, replay)
		}
		for i := range r.Viol {
			r.Viol[i].FP = strings.Replace(r.Viol[i].FP, "C02:", "C12:api-", 1)
		}
		return
	}
	c02bytes(r, &mu, validators)
	for _, p := range [][]byte{nil, {}, {0}, {0xff}, {1, 2, 3, 4, 5, 6, 7, 8}} {
		for _, soft := range []bool{false, true} {
			c02eval(r, &mu, validators[0], 0, p, kit.NewBlock(c02height, "B"), nil, soft, nil, fmt.Sprintf("tiny/%x/%v", p, soft))
			c02eval(r, &mu, validators[0], 0, p, nil, nil, soft, nil, fmt.Sprintf("tiny-nilblock/%x/%v", p, soft))
		}
	}
	// every proof (and previous proof) of one, two or three little-endian 32-bit words over a boundary grid
	wg := []uint32{0, 1, 2, 3, 4, 5, 8, 0x10, 0x7fffffff, 0x80000000, 0xfffffff8, 0xfffffffc, 0xfffffffd, 0xffffffff}
	le := func(ws ...uint32) []byte {
		var b []byte
		for _, w := range ws {
			b = append(b, byte(w), byte(w>>8), byte(w>>16), byte(w>>24))
		}
		return b
	}
	goodProof, goodBlk, _ := c02build(c02desc{0, 0b0111, "none", 3, true, 0, true, 0, "valid", "nil", false, false})
	try := func(p []byte) {
		c02eval(r, &mu, validators[0], 0, p, kit.NewBlock(c02height, "B"), nil, false, nil, fmt.Sprintf("words/%x", p))
		c02eval(r, &mu, validators[0], 0, goodProof, goodBlk, p, true, nil, fmt.Sprintf("prevwords/%x", p))
	}
	for _, a := range wg {
		try(le(a))
		for _, b := range wg {
			try(le(a, b))
			for _, c3 := range wg {
				try(le(a, b, c3))
			}
		}
	}
	c12parseCost(r)
	r.Sample(map[string]interface{}{"case": "truncation of a valid 4-member proof to 17 bytes", "expect": "error, no panic"})
	// relabel for C12
	for i := range r.Viol {
		r.Viol[i].FP = strings.Replace(r.Viol[i].FP, "C02:", "C12:api-", 1)
	}
}

// c12parseCost: one (unauthenticated) message or proof must not cost more than time and memory proportional to its
// size: the bytes allocated while parsing content that carries N array elements are measured for N = 1000 and 4000
// (deterministic: single goroutine, allocation counters, no clock); growth beyond 8x for 4x the input is superlinear.
func c12parseCost(r *Rec) {
	alloc := func(f func()) uint64 {
		var a, b runtime.MemStats
		runtime.GC()
		runtime.ReadMemStats(&a)
		f()
		runtime.ReadMemStats(&b)
		return b.TotalAlloc - a.TotalAlloc
	}
	nv := func(n int) []byte {
		hdr := &protocol.NewViewHeaderBuilder{MessageType: protocol.LEAN_HELIX_NEW_VIEW, InstanceId: kit.Instance, BlockHeight: 1, View: 1}
		for i := 0; i < n; i++ {
			hdr.ViewChangeConfirmations = append(hdr.ViewChangeConfirmations, &protocol.ViewChangeMessageContentBuilder{})
		}
		c := &protocol.LeanhelixContentBuilder{Message: protocol.LEANHELIX_CONTENT_MESSAGE_NEW_VIEW_MESSAGE, NewViewMessage: &protocol.NewViewMessageContentBuilder{SignedHeader: hdr}}
		return c.Build().Raw()
	}
	vc := func(n int) []byte {
		pr := &protocol.PreparedProofBuilder{}
		for i := 0; i < n; i++ {
			pr.PrepareSenders = append(pr.PrepareSenders, &protocol.SenderSignatureBuilder{})
		}
		hdr := &protocol.ViewChangeHeaderBuilder{MessageType: protocol.LEAN_HELIX_VIEW_CHANGE, InstanceId: kit.Instance, BlockHeight: 1, View: 1, PreparedProof: pr}
		c := &protocol.LeanhelixContentBuilder{Message: protocol.LEANHELIX_CONTENT_MESSAGE_VIEW_CHANGE_MESSAGE, ViewChangeMessage: &protocol.ViewChangeMessageContentBuilder{SignedHeader: hdr}}
		return c.Build().Raw()
	}
	proof := func(n int) []byte {
		b := &protocol.BlockProofBuilder{BlockRef: &protocol.BlockRefBuilder{MessageType: protocol.LEAN_HELIX_COMMIT, InstanceId: kit.Instance, BlockHeight: c02height, BlockHash: kit.HashOf(kit.NewBlock(c02height, "B"))}}
		for i := 0; i < n; i++ {
			b.Nodes = append(b.Nodes, &protocol.SenderSignatureBuilder{})
		}
		return b.Build().Raw()
	}
	v := c02validator(c02committees[0])
	cases := []struct {
		name string
		run  func(n int) func()
	}{
		{"ToConsensusMessage(NEW_VIEW with N empty votes)", func(n int) func() {
			c := nv(n)
			return func() { interfaces.ToConsensusMessage(&interfaces.ConsensusRawMessage{Content: c}) }
		}},
		{"ToConsensusMessage(VIEW_CHANGE whose proof lists N empty PREPARE senders)", func(n int) func() {
			c := vc(n)
			return func() { interfaces.ToConsensusMessage(&interfaces.ConsensusRawMessage{Content: c}) }
		}},
		{"ValidateBlockConsensus + GetMemberIdsFromBlockProof(proof with N empty signers)", func(n int) func() {
			p := proof(n)
			return func() {
				v.W.ValidateBlockConsensus(context.Background(), kit.NewBlock(c02height, "B"), p, kit.NewBlock(c02height-1, "prev"), nil, false)
				lh.GetMemberIdsFromBlockProof(p)
			}
		}},
	}
	for _, c := range cases {
		var small, large uint64
		if p := guard(func() { small = alloc(c.run(1000)); large = alloc(c.run(4000)) }); p != "" {
			r.Bad("C02:validate-panics", c.name+" panics: "+p, map[string]interface{}{"case": c.name})
			continue
		}
		r.Case("parse-cost/" + c.name)
		r.Evals += 2
		if small > 0 && large > 8*small {
			r.Bad("C02:superlinear-parse-cost", fmt.Sprintf("%s: %d bytes allocated for N=1000, %d for N=4000 (x%.1f for 4x the input): the cost of one message grows faster than its size", c.name, small, large, float64(large)/float64(small)), map[string]interface{}{"case": c.name})
		}
	}
}
