package main

import (
	"fmt"

	"verif/kit"

	"github.com/orbs-network/lean-helix-go/services/blockextractor"
	"github.com/orbs-network/lean-helix-go/services/interfaces"
	"github.com/orbs-network/lean-helix-go/services/messagesfactory"
	"github.com/orbs-network/lean-helix-go/services/preparedmessages"
	"github.com/orbs-network/lean-helix-go/spec/types/go/primitives"
)

// C09 (extractor half): the block an elected leader re-proposes is chosen by GetLatestBlockFromViewChangeMessages
// from the votes it counted. Every ORDERED sequence of up to five votes over {no proof, proof of view 0..3 with its
// block (one distinct block per view)} is put through the real function: the result must be the block of the
// highest-view proof wherever it stands in the sequence, nil if no vote carries a block, and the caller's slice must
// come back unchanged (it is reused to build the NEW_VIEW).
func init() { checks["C09:extractor"] = c09extractor }

func c09extractor(r *Rec, replay map[string]interface{}) {
	r.Rule = "every ordered sequence of 1..5 votes (quick: 1..4) over the alphabet {proof-less vote, vote carrying a prepared proof of view v and its block, v = 0..3, one distinct block per view} through the real GetLatestBlockFromViewChangeMessages: the block and hash of the highest-view proof, nil when no vote carries a block, input slice unchanged. distinct_nontrivial = distinct sequences"
	const views = 4
	seed := uint64(1)
	mk := func(sender int, v int) *interfaces.ViewChangeMessage {
		id := primitives.MemberId(fmt.Sprintf("m%d", sender))
		f := messagesfactory.NewMessageFactory(kit.Instance, &kit.KeyManager{Me: id}, id, seed)
		if v < 0 {
			return f.CreateViewChangeMessage(1, 9, nil)
		}
		blk := kit.NewBlock(1, fmt.Sprintf("B%d", v))
		lid := primitives.MemberId(fmt.Sprintf("l%d", v))
		lf := messagesfactory.NewMessageFactory(kit.Instance, &kit.KeyManager{Me: lid}, lid, seed)
		pid := primitives.MemberId("p")
		pf := messagesfactory.NewMessageFactory(kit.Instance, &kit.KeyManager{Me: pid}, pid, seed)
		pm := &preparedmessages.PreparedMessages{PreprepareMessage: lf.CreatePreprepareMessage(1, primitives.View(v), blk, kit.HashOf(blk)),
			PrepareMessages: []*interfaces.PrepareMessage{pf.CreatePrepareMessage(1, primitives.View(v), kit.HashOf(blk))}}
		return f.CreateViewChangeMessage(1, 9, pm)
	}
	check := func(seq []int) {
		votes := make([]*interfaces.ViewChangeMessage, len(seq))
		best := -1
		for i, v := range seq {
			votes[i] = mk(i, v)
			if v > best {
				best = v
			}
		}
		orig := append([]*interfaces.ViewChangeMessage{}, votes...)
		r.Case(fmt.Sprint(seq))
		r.Evals++
		cs := map[string]interface{}{"sequence": fmt.Sprint(seq)}
		var blk interfaces.Block
		var hash primitives.BlockHash
		if p := guard(func() { blk, hash = blockextractor.GetLatestBlockFromViewChangeMessages(votes) }); p != "" {
			r.Bad("C09:extractor-panics", fmt.Sprintf("votes %v (proof views, -1 = none): %s", seq, p), cs)
			return
		}
		if best < 0 {
			if blk != nil {
				r.Bad("C09:extractor-block-from-nowhere", fmt.Sprintf("votes %v carry no block, the extractor returned %s", seq, kit.TagOf(blk)), cs)
			}
		} else {
			want := kit.NewBlock(1, fmt.Sprintf("B%d", best))
			if blk == nil || kit.TagOf(blk) != want.Tag || !hash.Equal(kit.HashOf(want)) {
				r.Bad("C09:extractor-not-highest-proof", fmt.Sprintf("votes with proof views %v (-1 = none) in this order: the extractor chose %s, the highest prepared proof is of view %d (block %s)", seq, kit.TagOf(blk), best, want.Tag), cs)
			}
		}
		for i := range votes {
			if votes[i] != orig[i] {
				r.Bad("C09:extractor-reorders-callers-votes", fmt.Sprintf("votes %v: the caller's slice was modified (it is reused to build the NEW_VIEW)", seq), cs)
				break
			}
		}
	}
	if replay != nil {
		check(intsOf(replay["case"].(map[string]interface{})["sequence"].(string)))
		return
	}
	maxLen := 4
	if r.Tier == "thorough" {
		maxLen = 5
	}
	for n := 1; n <= maxLen; n++ {
		seq := make([]int, n)
		var rec func(i int)
		rec = func(i int) {
			if i == n {
				check(append([]int{}, seq...))
				return
			}
			for v := -1; v < views; v++ {
				seq[i] = v
				rec(i + 1)
			}
		}
		rec(0)
	}
	r.Sample(map[string]interface{}{"sequence": "[1 0 2]", "expect": "block B2"})
}

func intsOf(s string) []int {
	var r []int
	cur, neg, in := 0, false, false
	for _, c := range s {
		switch {
		case c == '-':
			neg = true
		case c >= '0' && c <= '9':
			cur, in = cur*10+int(c-'0'), true
		default:
			if in {
				if neg {
					cur = -cur
				}
				r = append(r, cur)
			}
			cur, neg, in = 0, false, false
		}
	}
	if in {
		if neg {
			cur = -cur
		}
		r = append(r, cur)
	}
	return r
}
