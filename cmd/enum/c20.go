package main

import (
	"bytes"
	"context"
	"crypto/sha256"
	"errors"
	"fmt"
	"math"

	"verif/kit"

	"github.com/orbs-network/lean-helix-go/services/blockproof"
	"github.com/orbs-network/lean-helix-go/services/interfaces"
	"github.com/orbs-network/lean-helix-go/services/leanhelixterm"
	L "github.com/orbs-network/lean-helix-go/services/logger"
	"github.com/orbs-network/lean-helix-go/state"
	"github.com/orbs-network/lean-helix-go/services/messagesfactory"
	"github.com/orbs-network/lean-helix-go/services/preparedmessages"
	"github.com/orbs-network/lean-helix-go/spec/types/go/primitives"
	"github.com/orbs-network/lean-helix-go/spec/types/go/protocol"
)

// C20: wire round trip preserves every field and every signature.
func init() { checks["C20"] = c20 }

// c20km: signatures of configurable length and byte pattern, still verifiable by recomputation.
type c20km struct {
	me     primitives.MemberId
	siglen int
	pat    string // hash | zero | ff
}

func c20bytes(n int, pat string, seed []byte) []byte {
	b := make([]byte, n)
	h := sha256.Sum256(seed)
	for i := range b {
		switch pat {
		case "zero":
			b[i] = 0
		case "ff":
			b[i] = 0xff
		case "count":
			b[i] = byte(i)
		default:
			b[i] = h[i%32] ^ byte(i/32)
		}
	}
	return b
}

func (k *c20km) sig(kind string, id primitives.MemberId, h primitives.BlockHeight, c []byte) []byte {
	return c20bytes(k.siglen, k.pat, []byte(fmt.Sprintf("%s|%x|%d|%x", kind, []byte(id), uint64(h), c)))
}
func (k *c20km) SignConsensusMessage(ctx context.Context, h primitives.BlockHeight, c []byte) primitives.Signature {
	return k.sig("C", k.me, h, c)
}
func (k *c20km) VerifyConsensusMessage(h primitives.BlockHeight, c []byte, s *protocol.SenderSignature) error {
	if !bytes.Equal(k.sig("C", s.MemberId(), h, c), s.Signature()) {
		return errors.New("bad signature")
	}
	return nil
}
func (k *c20km) SignRandomSeed(ctx context.Context, h primitives.BlockHeight, c []byte) primitives.RandomSeedSignature {
	return k.sig("R", k.me, h, c)
}
func (k *c20km) VerifyRandomSeed(h primitives.BlockHeight, c []byte, s *protocol.SenderSignature) error {
	if !bytes.Equal(k.sig("R", s.MemberId(), h, c), s.Signature()) {
		return errors.New("bad share")
	}
	return nil
}
func (k *c20km) AggregateRandomSeed(h primitives.BlockHeight, shares []*protocol.SenderSignature) primitives.RandomSeedSignature {
	return k.sig("AGG", nil, h, nil)
}

type c20case struct {
	Kind     string
	Inst     uint64
	Height   uint64
	View     uint64
	IDLen    int
	HashLen  int
	SigLen   int
	Pat      string
	Votes    int
	Prepares int
	Proof    bool
	Block    bool
	Mix      string // NEW_VIEW only: which votes carry a proof and how the proofs differ: "" every second vote, identical proofs | "all" every vote, each proof with its own PREPARE senders (different members, count, order) and proven view | "tail" only the last two votes, distinct proofs
	PKind    string // "" same view in both refs | "mismatch" PREPAREs of another view than the PREPREPARE | "nopp" no PREPREPARE part
}

func c20(r *Rec, replay map[string]interface{}) {
	r.Rule = "five message types built by the real MessageFactory over heights/views/instances {0,1,255,2^32,2^63,2^64-1}, ids/hashes/signatures/shares of length {0,1,7,8,9,32,33,256} with patterns {hash-derived,0x00,0xFF,counting}, votes {0,1,2,4,20}, prepare senders {0,1,3,20}, with/without proof and block, NEW_VIEWs whose votes carry pairwise different proofs (other PREPARE senders, counts, order, proven view; every vote or only the last two) (one-factor-at-a-time around three base points plus the full product of lengths x patterns); oracle: ToConsensusRawMessage -> ToConsensusMessage gives equal type/fields/nested proofs/votes, every signature that verified before verifies over the re-read header bytes (incl. votes re-encoded into a NEW_VIEW and block proofs from commits), parsing twice is identical. distinct_nontrivial = distinct cases"
	nums := []uint64{0, 1, 255, 1 << 32, 1 << 63, math.MaxUint64}
	lens := []int{0, 1, 7, 8, 9, 32, 33, 256}
	pats := []string{"hash", "zero", "ff", "count"}
	var cases []c20case
	seen := map[c20case]bool{}
	add := func(c c20case) {
		if !seen[c] {
			seen[c] = true
			cases = append(cases, c)
		}
	}
	kinds := []string{"PP", "P", "C", "VC", "NV"}
	bases := []c20case{
		{Inst: 7, Height: 1, View: 0, IDLen: 8, HashLen: 32, SigLen: 33, Pat: "hash", Votes: 2, Prepares: 3, Proof: true, Block: true},
		{Inst: math.MaxUint64, Height: 1 << 63, View: math.MaxUint64, IDLen: 1, HashLen: 1, SigLen: 1, Pat: "ff", Votes: 4, Prepares: 1, Proof: true, Block: true},
		{Inst: 0, Height: 0, View: 1, IDLen: 32, HashLen: 0, SigLen: 0, Pat: "zero", Votes: 1, Prepares: 3, Proof: false, Block: false},
	}
	for _, k := range kinds {
		for _, b := range bases {
			b.Kind = k
			add(b)
			for _, x := range nums {
				c := b
				c.Inst = x
				add(c)
				c = b
				c.Height = x
				add(c)
				c = b
				c.View = x
				add(c)
			}
			for _, l := range lens {
				for _, p := range pats {
					c := b
					c.IDLen, c.Pat = l, p
					add(c)
					c = b
					c.HashLen, c.Pat = l, p
					add(c)
					c = b
					c.SigLen, c.Pat = l, p
					add(c)
				}
			}
			if k == "NV" || k == "VC" {
				for _, nv := range []int{1, 2, 4} {
					c := b
					c.Proof, c.PKind, c.Prepares, c.Votes, c.Mix = true, "emptypreps", 0, nv, ""
					add(c)
					c.Mix = "all"
					add(c)
				}
				for _, pk := range []string{"mismatch", "nopp"} {
					for _, np := range []int{1, 3} {
						c := b
						c.Proof, c.PKind, c.Prepares, c.Votes = true, pk, np, 2
						add(c)
					}
				}
				if k == "NV" {
					for _, mix := range []string{"all", "tail"} {
						for _, nv := range []int{2, 3, 4, 20} {
							for _, np := range []int{1, 3} {
								for _, pk := range []string{"", "mismatch", "nopp"} {
									c := b
									c.Proof, c.Mix, c.Votes, c.Prepares, c.PKind = true, mix, nv, np, pk
									add(c)
								}
							}
						}
					}
				}
				for _, nv := range []int{0, 1, 2, 4, 20} {
					for _, np := range []int{0, 1, 3, 20} {
						for _, pf := range []bool{true, false} {
							for _, bl := range []bool{true, false} {
								c := b
								c.Votes, c.Prepares, c.Proof, c.Block = nv, np, pf, bl
								add(c)
							}
						}
					}
				}
			}
		}
		if r.Tier == "thorough" {
			for _, h := range nums {
				for _, v := range nums {
					for _, i := range nums {
						for _, l := range []int{0, 8, 33} {
							add(c20case{Kind: k, Inst: i, Height: h, View: v, IDLen: l, HashLen: l, SigLen: l, Pat: "hash", Votes: 2, Prepares: 3, Proof: true, Block: true})
						}
					}
				}
			}
		}
	}
	if replay != nil {
		m := replay["case"].(map[string]interface{})
		c := c20case{Kind: m["Kind"].(string), IDLen: int(m["IDLen"].(float64)), HashLen: int(m["HashLen"].(float64)), SigLen: int(m["SigLen"].(float64)), Pat: m["Pat"].(string),
			Votes: int(m["Votes"].(float64)), Prepares: int(m["Prepares"].(float64)), Proof: m["Proof"].(bool), Block: m["Block"].(bool)}
		if pk, ok := m["PKind"].(string); ok {
			c.PKind = pk
		}
		if mx, ok := m["Mix"].(string); ok {
			c.Mix = mx
		}
		c.Inst, c.Height, c.View = f2u(m["Inst"]), f2u(m["Height"]), f2u(m["View"])
		c20one(r, c)
		return
	}
	for _, c := range cases {
		c20one(r, c)
	}
	r.Sample(cases[0])
	r.Sample(cases[len(cases)/2])
	r.Sample(cases[len(cases)-1])
	r.Assume = []string{"field values drawn from boundary classes; member ids of a committee are distinct (suffix index)"}
}

func f2u(x interface{}) uint64 {
	f := x.(float64)
	if f >= 1.8e19 {
		return math.MaxUint64
	}
	return uint64(f)
}

func c20id(c c20case, i int) primitives.MemberId {
	b := c20bytes(c.IDLen, c.Pat, []byte{byte(i)})
	if len(b) > 0 {
		b[len(b)-1] = byte(i) // keep ids distinct
	}
	return b
}

func c20one(r *Rec, c c20case) {
	r.Case(fmt.Sprint(c))
	bad := func(clause, format string, a ...interface{}) {
		r.Bad("C20:"+clause, fmt.Sprintf("%s: ", c.Kind)+fmt.Sprintf(format, a...), c)
	}
	p := guard(func() { c20body(c, bad) })
	if p != "" {
		bad("panic", "round trip panics: %s", p)
	}
}

func c20body(c c20case, bad func(clause, format string, a ...interface{})) {
	H, V, I := primitives.BlockHeight(c.Height), primitives.View(c.View), primitives.InstanceId(c.Inst)
	fac := func(i int) (*messagesfactory.MessageFactory, *c20km) {
		km := &c20km{me: c20id(c, i), siglen: c.SigLen, pat: c.Pat}
		return messagesfactory.NewMessageFactory(I, km, km.me, 12345), km
	}
	f0, km := fac(0)
	hash := primitives.BlockHash(c20bytes(c.HashLen, c.Pat, []byte("hash")))
	var blk interfaces.Block
	if c.Block {
		blk = kit.NewBlock(c.Height, "B")
	}
	verify := func(what string, h primitives.BlockHeight, hdr []byte, s *protocol.SenderSignature) {
		if err := km.VerifyConsensusMessage(h, hdr, s); err != nil {
			bad("signature-lost", "%s: signature that verified before the round trip no longer verifies over the re-read bytes", what)
		}
	}
	sameRef := func(what string, a, b *protocol.BlockRef) {
		if a.MessageType() != b.MessageType() || a.InstanceId() != b.InstanceId() || a.BlockHeight() != b.BlockHeight() || a.View() != b.View() || !bytes.Equal(a.BlockHash(), b.BlockHash()) {
			bad("field-changed", "%s: block ref changed in the round trip: %s vs %s", what, a, b)
		}
		if !bytes.Equal(a.Raw(), b.Raw()) {
			bad("bytes-changed", "%s: signed bytes changed in the round trip", what)
		}
	}
	sameSender := func(what string, a, b *protocol.SenderSignature) {
		if !bytes.Equal(a.MemberId(), b.MemberId()) || !bytes.Equal(a.Signature(), b.Signature()) {
			bad("field-changed", "%s: sender/signature changed in the round trip", what)
		}
	}
	reparse := func(m interfaces.ConsensusMessage) interfaces.ConsensusMessage {
		raw := m.ToConsensusRawMessage()
		p1 := interfaces.ToConsensusMessage(raw)
		p2 := interfaces.ToConsensusMessage(&interfaces.ConsensusRawMessage{Content: append([]byte{}, raw.Content...), Block: raw.Block})
		if p1 == nil || p2 == nil {
			bad("unparsable", "factory output does not parse back")
			return nil
		}
		if fmt.Sprintf("%T", p1) != fmt.Sprintf("%T", m) {
			bad("type-changed", "built %T, parsed %T", m, p1)
			return nil
		}
		if !bytes.Equal(p1.Raw(), p2.Raw()) || p1.String() != p2.String() {
			bad("nondeterministic-parse", "parsing the same bytes twice differs")
		}
		if p1.InstanceId() != m.InstanceId() || p1.BlockHeight() != m.BlockHeight() || p1.View() != m.View() || p1.MessageType() != m.MessageType() || !p1.SenderMemberId().Equal(m.SenderMemberId()) {
			bad("field-changed", "instance/height/view/type/sender changed: %s vs %s", m, p1)
		}
		if p1.InstanceId() != I || p1.BlockHeight() != H || p1.View() != V || !p1.SenderMemberId().Equal(km.me) {
			bad("field-changed", "parsed instance/height/view/sender differ from the values given to the factory: %s", p1)
		}
		return p1
	}
	sameProof := func(what string, a, b *protocol.PreparedProof) {
		ea, eb := a == nil || len(a.Raw()) == 0, b == nil || len(b.Raw()) == 0
		if ea != eb {
			bad("proof-presence-changed", "%s: prepared proof present=%v before, %v after", what, !ea, !eb)
			return
		}
		if ea {
			return
		}
		sameRef(what+" proof.pp", a.PreprepareBlockRef(), b.PreprepareBlockRef())
		sameRef(what+" proof.p", a.PrepareBlockRef(), b.PrepareBlockRef())
		sameSender(what+" proof.ppsender", a.PreprepareSender(), b.PreprepareSender())
		ia, ib := a.PrepareSendersIterator(), b.PrepareSendersIterator()
		n := 0
		for ia.HasNext() && ib.HasNext() {
			sa, sb := ia.NextPrepareSenders(), ib.NextPrepareSenders()
			sameSender(fmt.Sprintf("%s proof.prepare[%d]", what, n), sa, sb)
			verify(fmt.Sprintf("%s proof.prepare[%d]", what, n), b.PrepareBlockRef().BlockHeight(), b.PrepareBlockRef().Raw(), sb)
			n++
		}
		if ia.HasNext() != ib.HasNext() {
			bad("field-changed", "%s: number of prepare senders changed", what)
		}
		if len(a.RawPreprepareSender()) > 0 { // the PREPREPARE part may be absent (half proof)
			verify(what+" proof.preprepare", b.PreprepareBlockRef().BlockHeight(), b.PreprepareBlockRef().Raw(), b.PreprepareSender())
		} else if len(b.RawPreprepareSender()) > 0 || len(b.RawPreprepareBlockRef()) > 0 {
			bad("proof-presence-changed", "%s: an absent PREPREPARE part became present", what)
		}
	}
	// preparedVar: the k-th distinct proof (k>0): other PREPARE senders (other members, another count, reversed
	// order for odd k), an earlier proven view where there is room — so that no two votes of a NEW_VIEW share a part
	var prepared func(view primitives.View) *preparedmessages.PreparedMessages
	preparedVar := func(view primitives.View, k int) *preparedmessages.PreparedMessages {
		if k == 0 {
			return prepared(view)
		}
		if uint64(view) >= uint64(k) {
			view -= primitives.View(k)
		}
		lf, _ := fac(100 + 40*k)
		pm := &preparedmessages.PreparedMessages{PreprepareMessage: lf.CreatePreprepareMessage(H, view, blk, hash)}
		pview := view
		switch c.PKind {
		case "mismatch":
			pview = view + 1
		case "nopp":
			pm.PreprepareMessage = nil
			pview = view + 2
		}
		np := c.Prepares + k%3
		for i := 0; i < np; i++ {
			pf, _ := fac(101 + 40*k + i)
			pm.PrepareMessages = append(pm.PrepareMessages, pf.CreatePrepareMessage(H, pview, hash))
		}
		if k%2 == 1 {
			for i, j := 0, len(pm.PrepareMessages)-1; i < j; i, j = i+1, j-1 {
				pm.PrepareMessages[i], pm.PrepareMessages[j] = pm.PrepareMessages[j], pm.PrepareMessages[i]
			}
		}
		return pm
	}
	prepared = func(view primitives.View) *preparedmessages.PreparedMessages {
		if !c.Proof {
			return nil
		}
		lf, _ := fac(100)
		pm := &preparedmessages.PreparedMessages{PreprepareMessage: lf.CreatePreprepareMessage(H, view, blk, hash)}
		pview := view
		switch c.PKind {
		case "mismatch":
			pview = view + 1
		case "nopp":
			pm.PreprepareMessage = nil
			pview = view + 2
		}
		for i := 0; i < c.Prepares; i++ {
			pf, _ := fac(101 + i)
			pm.PrepareMessages = append(pm.PrepareMessages, pf.CreatePrepareMessage(H, pview, hash))
		}
		if c.PKind == "emptypreps" {
			// the certificate of a proposer whose own weight is a quorum: its PREPREPARE and an EMPTY (non-nil) PREPARE list
			pm.PrepareMessages = []*interfaces.PrepareMessage{}
		}
		return pm
	}
	switch c.Kind {
	case "PP":
		m := f0.CreatePreprepareMessage(H, V, blk, hash)
		if p := reparse(m); p != nil {
			q := p.(*interfaces.PreprepareMessage)
			sameRef("header", m.Content().SignedHeader(), q.Content().SignedHeader())
			sameSender("sender", m.Content().Sender(), q.Content().Sender())
			verify("header", H, q.Content().SignedHeader().Raw(), q.Content().Sender())
			if q.Block() != blk {
				bad("block-changed", "attached block changed")
			}
		}
	case "P":
		m := f0.CreatePrepareMessage(H, V, hash)
		if p := reparse(m); p != nil {
			q := p.(*interfaces.PrepareMessage)
			sameRef("header", m.Content().SignedHeader(), q.Content().SignedHeader())
			sameSender("sender", m.Content().Sender(), q.Content().Sender())
			verify("header", H, q.Content().SignedHeader().Raw(), q.Content().Sender())
		}
	case "C":
		m := f0.CreateCommitMessage(H, V, hash)
		if p := reparse(m); p != nil {
			q := p.(*interfaces.CommitMessage)
			sameRef("header", m.Content().SignedHeader(), q.Content().SignedHeader())
			sameSender("sender", m.Content().Sender(), q.Content().Sender())
			verify("header", H, q.Content().SignedHeader().Raw(), q.Content().Sender())
			if !bytes.Equal(m.Content().Share(), q.Content().Share()) {
				bad("field-changed", "share changed")
			}
		}
		// block proof from commit messages
		cms := []*interfaces.CommitMessage{m}
		for i := 1; i <= c.Prepares; i++ {
			cf, _ := fac(i)
			cms = append(cms, cf.CreateCommitMessage(H, V, hash))
		}
		proof := protocol.BlockProofReader(append([]byte{}, blockproof.GenerateLeanHelixBlockProof(km, cms).Raw()...))
		br := proof.BlockRef()
		if br.InstanceId() != I || br.BlockHeight() != H || br.View() != V || !bytes.Equal(br.BlockHash(), hash) || br.MessageType() != protocol.LEAN_HELIX_COMMIT {
			bad("proof-field-changed", "block proof header differs from the commits' header: %s", br)
		}
		it := proof.NodesIterator()
		n := 0
		for it.HasNext() {
			s := it.NextNodes()
			if n < len(cms) {
				sameSender(fmt.Sprintf("blockproof.node[%d]", n), cms[n].Content().Sender(), s)
			}
			verify(fmt.Sprintf("blockproof.node[%d]", n), br.BlockHeight(), br.Raw(), s)
			n++
		}
		if n != len(cms) {
			bad("proof-field-changed", "block proof holds %d signers for %d commits", n, len(cms))
		}
		// the same through the path the library itself uses at commit time (CommitsToProof -> commit callback)
		var got []byte
		st := state.NewState()
		lg := L.NewLhLogger(&interfaces.Config{Membership: &kit.Membership{Me: km.me}}, st)
		leanhelixterm.CommitsToProof(lg, km, func(ctx context.Context, b interfaces.Block, p []byte) error {
			got = append([]byte{}, p...)
			return nil
		})(context.Background(), kit.NewBlock(c.Height, "B"), cms)
		cp := protocol.BlockProofReader(got)
		it2 := cp.NodesIterator()
		k := 0
		for it2.HasNext() {
			s := it2.NextNodes()
			if k < len(cms) {
				sameSender(fmt.Sprintf("commit-callback proof node[%d]", k), cms[k].Content().Sender(), s)
			}
			verify(fmt.Sprintf("commit-callback proof node[%d]", k), cp.BlockRef().BlockHeight(), cp.BlockRef().Raw(), s)
			k++
		}
		if k != len(cms) {
			bad("proof-signers-lost", "the proof handed to the commit callback holds %d signers for %d commits (member ids %d bytes long)", k, len(cms), c.IDLen)
		}
	case "VC":
		var pv primitives.View
		if c.View > 0 {
			pv = V - 1
		}
		m := f0.CreateViewChangeMessage(H, V, prepared(pv))
		if p := reparse(m); p != nil {
			q := p.(*interfaces.ViewChangeMessage)
			sameSender("sender", m.Content().Sender(), q.Content().Sender())
			if !bytes.Equal(m.Content().SignedHeader().Raw(), q.Content().SignedHeader().Raw()) {
				bad("bytes-changed", "signed header bytes changed")
			}
			verify("header", H, q.Content().SignedHeader().Raw(), q.Content().Sender())
			sameProof("vote", m.Content().SignedHeader().PreparedProof(), q.Content().SignedHeader().PreparedProof())
			if c.Proof && c.PKind != "nopp" && q.Block() != blk || q.Block() != m.Block() {
				bad("block-changed", "attached block changed")
			}
		}
	case "NV":
		var pv primitives.View
		if c.View > 0 {
			pv = V - 1
		}
		var vcms []*interfaces.ViewChangeMessage
		for i := 0; i < c.Votes; i++ {
			vf, _ := fac(10 + i)
			var pm *preparedmessages.PreparedMessages
			switch c.Mix {
			case "all":
				pm = preparedVar(pv, i)
			case "tail":
				if i >= c.Votes-2 {
					pm = preparedVar(pv, i+1)
				}
			default:
				if i%2 == 0 {
					pm = prepared(pv)
				}
			}
			vcms = append(vcms, vf.CreateViewChangeMessage(H, V, pm))
		}
		ppb := f0.CreatePreprepareMessageContentBuilder(H, V, blk, hash)
		m := f0.CreateNewViewMessage(H, V, ppb, interfaces.ExtractConfirmationsFromViewChangeMessages(vcms), blk)
		if p := reparse(m); p != nil {
			q := p.(*interfaces.NewViewMessage)
			sameSender("sender", m.Content().Sender(), q.Content().Sender())
			verify("header", H, q.Content().SignedHeader().Raw(), q.Content().Sender())
			sameRef("embedded preprepare", m.Content().Message().SignedHeader(), q.Content().Message().SignedHeader())
			verify("embedded preprepare", H, q.Content().Message().SignedHeader().Raw(), q.Content().Message().Sender())
			it := q.Content().SignedHeader().ViewChangeConfirmationsIterator()
			n := 0
			for it.HasNext() {
				vt := it.NextViewChangeConfirmations()
				if n < len(vcms) {
					o := vcms[n].Content()
					sameSender(fmt.Sprintf("vote[%d]", n), o.Sender(), vt.Sender())
					if !bytes.Equal(o.SignedHeader().Raw(), vt.SignedHeader().Raw()) {
						bad("vote-bytes-changed", "vote[%d]: re-encoded signed header differs from the bytes the voter signed", n)
					}
					verify(fmt.Sprintf("vote[%d]", n), vt.SignedHeader().BlockHeight(), vt.SignedHeader().Raw(), vt.Sender())
					sameProof(fmt.Sprintf("vote[%d]", n), o.SignedHeader().PreparedProof(), vt.SignedHeader().PreparedProof())
				}
				n++
			}
			if n != len(vcms) {
				bad("field-changed", "NEW_VIEW holds %d votes, built from %d", n, len(vcms))
			}
			if q.Block() != blk {
				bad("block-changed", "attached block changed")
			}
		}
	}
}
