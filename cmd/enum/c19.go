package main

import (
	"fmt"
	"math"
	"math/big"
	"time"

	Electiontrigger "github.com/orbs-network/lean-helix-go/services/electiontrigger"
	"github.com/orbs-network/lean-helix-go/spec/types/go/primitives"
)

// C19 (formula half): timeout(v) = base*2^v, positive, non-decreasing, saturating.
func init() { checks["C19:formula"] = c19f }

func c19f(r *Rec, replay map[string]interface{}) {
	r.Rule = "views 0..200 and {2^k, 2^k+-1} for k<=64 x bases {1ns,1ms,4s,1h,MaxInt64/2}: CalcTimeout compared with min(base*2^v, MaxInt64) in big integers; positive; non-decreasing along the sorted view list. distinct_nontrivial = distinct (base, min(view,70)) pairs"
	bases := []time.Duration{1, time.Millisecond, 4 * time.Second, time.Hour, math.MaxInt64 / 2}
	set := map[uint64]bool{}
	for v := uint64(0); v <= 200; v++ {
		set[v] = true
	}
	for k := uint(0); k < 64; k++ {
		p := uint64(1) << k
		set[p], set[p-1], set[p+1] = true, true, true
	}
	set[^uint64(0)], set[^uint64(0)-1] = true, true
	var views []uint64
	for v := range set {
		views = append(views, v)
	}
	sortU(views)
	maxI := big.NewInt(math.MaxInt64)
	for _, base := range bases {
		t := Electiontrigger.NewTimerBasedElectionTrigger(base, nil)
		prev := time.Duration(0)
		for _, v := range views {
			var got time.Duration
			p := guard(func() { got = t.CalcTimeout(primitives.View(v)) })
			mv := v
			if mv > 70 {
				mv = 70
			}
			r.Case(fmt.Sprintf("%d/%d", base, mv))
			cs := map[string]interface{}{"base_ns": int64(base), "view": fmt.Sprint(v)}
			if p != "" {
				r.Bad("C19:timeout-panics", fmt.Sprintf("CalcTimeout(%d) with base %v panics: %s", v, base, p), cs)
				continue
			}
			want := new(big.Int).Set(maxI)
			if v < 64 {
				x := new(big.Int).Lsh(big.NewInt(int64(base)), uint(v))
				if x.Cmp(maxI) < 0 {
					want = x
				}
			}
			if got <= 0 {
				r.Bad("C19:timeout-not-positive", fmt.Sprintf("CalcTimeout(view %d) with base %v is %d ns", v, base, int64(got)), cs)
			} else if got < prev {
				r.Bad("C19:timeout-decreases", fmt.Sprintf("CalcTimeout(view %d) with base %v is %v, below %v of a lower view", v, base, got, prev), cs)
			} else if big.NewInt(int64(got)).Cmp(want) != 0 {
				r.Bad("C19:timeout-not-exponential", fmt.Sprintf("CalcTimeout(view %d) with base %v is %d ns, expected min(base*2^v, MaxInt64) = %s", v, base, int64(got), want), cs)
			}
			if got > 0 {
				prev = got
			}
		}
	}
	r.Sample(map[string]interface{}{"base": "4s", "view": 32, "expected_ns": new(big.Int).Lsh(big.NewInt(4e9), 32).String()})
	r.Sample(map[string]interface{}{"base": "4s", "view": 62, "expected_ns": fmt.Sprint(int64(math.MaxInt64)), "note": "saturated"})
}

func sortU(a []uint64) {
	for i := 1; i < len(a); i++ {
		for j := i; j > 0 && a[j-1] > a[j]; j-- {
			a[j-1], a[j] = a[j], a[j-1]
		}
	}
}
