package main

import (
	"fmt"
	"strings"

	"verif/kit"
	"verif/ref"

	"github.com/orbs-network/lean-helix-go/services/interfaces"
	L "github.com/orbs-network/lean-helix-go/services/logger"
	"github.com/orbs-network/lean-helix-go/services/messagesfactory"
	"github.com/orbs-network/lean-helix-go/services/rawmessagesfilter"
	"github.com/orbs-network/lean-helix-go/spec/types/go/primitives"
	"github.com/orbs-network/lean-helix-go/state"
)

// C17: BFS over operation sequences on the real RawMessageFilter + real State, in lock-step with ref.Filter.
func init() { checks["C17:filter"] = c17 }

type c17op struct {
	Kind string // "recv" | "advance"
	DH   int    // recv: height relative to current (-1..3); advance: +1..+3
	Var  string // recv: ok | marked | badinst | me
}

func (o c17op) String() string { return fmt.Sprintf("%s(%+d,%s)", o.Kind, o.DH, o.Var) }

type c17handler struct {
	w      *c17world
	height uint64
}

type c17world struct {
	st      *state.State
	f       *rawmessagesfilter.RawMessageFilter
	ref     *ref.Filter
	calls   []string // "termHeight:msgID" in order
	marked  map[int]bool
	vmarked map[int]bool
	fired   map[int]bool
	heights map[int]uint64
	nextID  int
	other   *messagesfactory.MessageFactory
	other2  *messagesfactory.MessageFactory
	mine    *messagesfactory.MessageFactory
	viol    []string
	reentry int
}

func (h *c17handler) HandleConsensusMessage(m interfaces.ConsensusMessage) error {
	id := int(m.View())
	h.w.calls = append(h.w.calls, fmt.Sprintf("%d:%d", h.height, id))
	if h.w.vmarked[id] && h.height == uint64(h.w.st.Height()) {
		// what an accepted NEW_VIEW does: the term moves to the next view of the SAME height
		h.w.st.SetView(h.w.st.View() + 1)
	}
	if h.w.marked[id] && !h.w.fired[id] && h.height == uint64(h.w.st.Height()) {
		// what a commit does: the worker enters the next height re-entrantly
		h.w.fired[id] = true
		h.w.reentry++
		h.w.advance(uint64(h.w.st.Height()) + 1)
	}
	return nil
}

func newC17world() *c17world {
	w := &c17world{st: state.NewState(), ref: ref.NewFilter(), marked: map[int]bool{}, vmarked: map[int]bool{}, fired: map[int]bool{}, heights: map[int]uint64{}}
	me := primitives.MemberId("me")
	cfg := &interfaces.Config{Membership: &kit.Membership{Me: me}}
	w.f = rawmessagesfilter.NewConsensusMessageFilter(kit.Instance, me, L.NewLhLogger(cfg, w.st), w.st)
	w.other = messagesfactory.NewMessageFactory(kit.Instance, &kit.KeyManager{Me: []byte("ot")}, []byte("ot"), 0)
	w.other2 = messagesfactory.NewMessageFactory(kit.Instance+1, &kit.KeyManager{Me: []byte("ot")}, []byte("ot"), 0)
	w.mine = messagesfactory.NewMessageFactory(kit.Instance, &kit.KeyManager{Me: me}, me, 0)
	return w
}

// advance = what the worker does when it enters a height: set the height, install the new term's
// handler, drain the cache. The reference is told first; its obligations are checked against the calls.
func (w *c17world) advance(to uint64) {
	if _, err := w.st.SetHeightAndResetView(primitives.BlockHeight(to)); err != nil {
		return
	}
	must, may := w.ref.Start(to)
	before := len(w.calls)
	w.f.ConsumeCacheMessages(&c17handler{w: w, height: to})
	// the calls made for term `to` during this drain
	var got []string
	for _, c := range w.calls[before:] {
		if strings.HasPrefix(c, fmt.Sprintf("%d:", to)) {
			got = append(got, c)
		}
	}
	allowed := map[string]int{}
	order := []string{}
	for _, m := range must {
		allowed[fmt.Sprintf("%d:%d", to, m.ID)] = m.At
	}
	for _, m := range may {
		allowed[fmt.Sprintf("%d:%d", to, m.ID)] = m.At
	}
	for _, m := range must {
		order = append(order, fmt.Sprintf("%d:%d", to, m.ID))
	}
	last := -1
	seen := map[string]bool{}
	for _, c := range got {
		at, ok := allowed[c]
		if !ok {
			continue // judged by the global rules in check()
		}
		if at < last {
			w.viol = append(w.viol, fmt.Sprintf("C17:cache-order|cached messages of height %d delivered out of receive order: %v", to, got))
		}
		last = at
		seen[c] = true
	}
	// a re-entrant advance during the drain: messages received after the one that triggered it belong to
	// a past height by then and may be dropped (they must not reach the new term: judged in check())
	cut := 1 << 30
	if uint64(w.st.Height()) != to {
		for _, m := range must {
			if w.fired[m.ID] && w.marked[m.ID] && m.At < cut {
				cut = m.At
			}
		}
	}
	for _, c := range order {
		if allowed[c] > cut {
			break
		}
		if !seen[c] {
			w.viol = append(w.viol, fmt.Sprintf("C17:cached-message-lost|message %s was cached for height %d (no higher height cached before it started) but was not delivered when the node started it; delivered: %v", c, to, got))
			break
		}
	}
}

func (w *c17world) apply(o c17op) {
	cur := uint64(w.st.Height())
	switch o.Kind {
	case "advance":
		w.advance(cur + uint64(o.DH))
	case "recv":
		hgt := int64(cur) + int64(o.DH)
		if hgt < 0 {
			return
		}
		id := w.nextID
		w.nextID++
		fac := w.other
		fm := ref.FMsg{ID: id, Height: uint64(hgt)}
		switch o.Var {
		case "badinst":
			fac, fm.BadInst = w.other2, true
		case "me":
			fac, fm.Mine = w.mine, true
		case "marked":
			w.marked[id] = true
		case "vmarked":
			w.vmarked[id] = true
		}
		w.heights[id] = uint64(hgt)
		msg := fac.CreatePrepareMessage(primitives.BlockHeight(hgt), primitives.View(id), []byte("h")).ToConsensusRawMessage()
		want := w.ref.Recv(fm)
		before := len(w.calls)
		w.f.HandleConsensusRawMessage(msg)
		if want != "" {
			ok := false
			for _, c := range w.calls[before:] {
				if c == want {
					ok = true
				}
			}
			if !ok {
				w.viol = append(w.viol, fmt.Sprintf("C17:current-height-message-not-delivered|message %s for the current height was not handed to the term", want))
			}
		}
	}
}

// check evaluates the global rules on the complete call log.
func (w *c17world) check(ops []c17op) []string {
	v := append([]string{}, w.viol...)
	seen := map[string]bool{}
	for _, c := range w.calls {
		var th uint64
		var id int
		fmt.Sscanf(c, "%d:%d", &th, &id)
		if seen[fmt.Sprint(id)] {
			v = append(v, fmt.Sprintf("C17:delivered-twice|message %d (height %d) was delivered twice: %v", id, w.heights[id], w.calls))
		}
		seen[fmt.Sprint(id)] = true
		if w.heights[id] != th {
			v = append(v, fmt.Sprintf("C17:delivered-to-other-height|message %d of height %d was delivered to the term of height %d: %v", id, w.heights[id], th, w.calls))
		}
	}
	return v
}

func c17run(ops []c17op) (*c17world, []string, string) {
	w := newC17world()
	p := guard(func() {
		for _, o := range ops {
			w.apply(o)
		}
	})
	if p != "" {
		return w, []string{"C17:panic|" + p}, ""
	}
	v := w.check(ops)
	// forbidden deliveries: own messages, other instances, lower heights (judged at receive time by height rule above)
	var vm []int
	for id := range w.vmarked {
		if w.heights[id] >= uint64(w.st.Height()) {
			vm = append(vm, int(w.heights[id])-int(w.st.Height()))
		}
	}
	sortInts(vm)
	key := w.ref.Dump() + "|" + w.f.VerifDump() + fmt.Sprintf("|h=%d v=%d|marks=%v vmarks=%v", w.st.Height(), w.st.View(), pendingMarks(w), vm)
	return w, v, key
}

func pendingMarks(w *c17world) []int {
	var r []int
	for id := range w.marked {
		if !w.fired[id] {
			r = append(r, int(w.heights[id])-int(w.st.Height()))
		}
	}
	sortInts(r)
	return r
}

func sortInts(a []int) {
	for i := 1; i < len(a); i++ {
		for j := i; j > 0 && a[j-1] > a[j]; j-- {
			a[j-1], a[j] = a[j], a[j-1]
		}
	}
}

func c17(r *Rec, replay map[string]interface{}) {
	r.Rule = "BFS over operation sequences on a real RawMessageFilter+State: recv(height h-1..h+3 x {ok, ok+marked(re-entrant advance to the next height when handled), ok+vmarked(view of the same height advances when handled), other instance, own sender}) and advance(+1..+3) (= SetHeightAndResetView + ConsumeCacheMessages with a recording handler); states de-duplicated by (reference state, real cache dump, height, pending marks); oracle = list-based reference filter. distinct_nontrivial = distinct de-duplicated states whose cache is non-empty"
	var alphabet []c17op
	for _, dh := range []int{0, 1, 2, 3, -1} {
		for _, v := range []string{"ok", "marked", "vmarked", "badinst", "me"} {
			alphabet = append(alphabet, c17op{"recv", dh, v})
		}
	}
	for _, dh := range []int{1, 2, 3} {
		alphabet = append(alphabet, c17op{"advance", dh, ""})
	}
	if replay != nil {
		var ops []c17op
		for _, x := range replay["case"].([]interface{}) {
			m := x.(map[string]interface{})
			ops = append(ops, c17op{m["Kind"].(string), int(m["DH"].(float64)), m["Var"].(string)})
		}
		_, v, _ := c17run(ops)
		for _, s := range v {
			f := strings.SplitN(s, "|", 2)
			r.Bad(f[0], f[1], ops)
		}
		return
	}
	maxLen := 5
	if r.Tier == "thorough" {
		maxLen = 7
	}
	type node struct{ ops []c17op }
	seen := map[string]bool{}
	frontier := []node{{nil}}
	_, _, k0 := c17run(nil)
	seen[k0] = true
	r.States = 1
	reentries := 0
	for depth := 0; depth < maxLen && len(frontier) > 0; depth++ {
		var next []node
		for _, nd := range frontier {
			for _, o := range alphabet {
				ops := append(append([]c17op{}, nd.ops...), o)
				w, v, key := c17run(ops)
				r.Transitions++
				r.Evals++
				reentries += w.reentry
				for _, s := range v {
					f := strings.SplitN(s, "|", 2)
					r.Bad(f[0], f[1], ops)
				}
				if len(v) > 0 || seen[key] {
					continue
				}
				seen[key] = true
				r.States++
				if strings.Contains(w.f.VerifDump(), ":[") {
					r.distinct[key] = true
				}
				if len(w.calls) >= 3 && len(r.Samples) < 4 {
					r.Sample(map[string]interface{}{"ops": fmt.Sprint(ops), "handler_calls(term:msg)": fmt.Sprint(w.calls)})
				}
				next = append(next, node{ops})
			}
		}
		frontier = next
	}
	r.Exhaustive = true
	r.Extra["max_sequence_length"] = maxLen
	r.Extra["reentrant_advances_executed"] = reentries
	r.Assume = []string{"'provided no accepted-for-caching message for a height above H had been received before it' is read as: before the node starts H (the cache keeps one future height by design)"}
}
