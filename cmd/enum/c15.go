package main

import (
	"context"
	"fmt"
	"math"
	"strings"

	"github.com/orbs-network/lean-helix-go/spec/types/go/primitives"
	"github.com/orbs-network/lean-helix-go/state"
)

// C15 (registry half): every For / CancelOlderThan / Shutdown sequence on the real ViewContexts, in
// lock-step with a set-based reference.
func init() { checks["C15:registry"] = c15r }

type c15op struct {
	Kind string // for | cancel | shutdown
	H    uint64
	V    uint64
}

func (o c15op) String() string {
	if o.Kind == "shutdown" {
		return "shutdown"
	}
	v := fmt.Sprint(o.V)
	if o.V == math.MaxUint64 {
		v = "max"
	}
	return fmt.Sprintf("%s(%d,%s)", o.Kind, o.H, v)
}

type c15handed struct {
	h, v   uint64
	ctx    context.Context
	expect bool // expected cancelled
}

func older(h1, v1, h2, v2 uint64) bool { return h1 < h2 || h1 == h2 && v1 < v2 }

func c15run(ops []c15op) (viol []string, key string) {
	vc := state.NewViewContexts()
	var handed []c15handed
	live := map[[2]uint64]context.Context{} // reference registry: hv -> context handed out and not yet superseded
	var wmSet bool
	var wmH, wmV uint64
	shut := false
	for i, o := range ops {
		switch o.Kind {
		case "for":
			ctx, err := vc.For(state.NewHeightView(primitives.BlockHeight(o.H), primitives.View(o.V)))
			wantErr := shut || wmSet && older(o.H, o.V, wmH, wmV)
			if (err != nil) != wantErr {
				viol = append(viol, fmt.Sprintf("C15:for-error|op %d %s: error=%v, expected error=%v (shutdown=%v watermark=%d/%d set=%v)", i, o, err, wantErr, shut, wmH, wmV, wmSet))
				continue
			}
			if err != nil {
				if ctx != nil {
					viol = append(viol, fmt.Sprintf("C15:context-with-error|op %d %s returned both a context and an error", i, o))
				}
				continue
			}
			if ctx == nil {
				viol = append(viol, fmt.Sprintf("C15:nil-context|op %d %s returned neither context nor error", i, o))
				continue
			}
			if ctx.Err() != nil {
				viol = append(viol, fmt.Sprintf("C15:handed-out-cancelled|op %d %s handed out an already cancelled context", i, o))
			}
			if prev, ok := live[[2]uint64{o.H, o.V}]; ok && prev != ctx {
				viol = append(viol, fmt.Sprintf("C15:not-same-context|op %d %s returned a different context than the earlier call for the same position", i, o))
			}
			live[[2]uint64{o.H, o.V}] = ctx
			handed = append(handed, c15handed{o.H, o.V, ctx, false})
		case "cancel":
			vc.CancelOlderThan(state.NewHeightView(primitives.BlockHeight(o.H), primitives.View(o.V)))
			for k := range handed {
				if older(handed[k].h, handed[k].v, o.H, o.V) {
					handed[k].expect = true
				}
			}
			for hv := range live {
				if older(hv[0], hv[1], o.H, o.V) {
					delete(live, hv)
				}
			}
			if !wmSet || older(wmH, wmV, o.H, o.V) {
				wmSet, wmH, wmV = true, o.H, o.V
			}
		case "shutdown":
			vc.Shutdown()
			shut = true
			for k := range handed {
				handed[k].expect = true
			}
		}
		for _, hd := range handed {
			if got := hd.ctx.Err() != nil; got != hd.expect {
				if hd.expect {
					viol = append(viol, fmt.Sprintf("C15:not-cancelled|after op %d %s the context handed out for (%d,%d) is still live although its position was superseded", i, o, hd.h, hd.v))
				} else {
					viol = append(viol, fmt.Sprintf("C15:cancelled-too-early|after op %d %s the context of (%d,%d) is cancelled although nothing superseded it", i, o, hd.h, hd.v))
				}
			}
		}
	}
	var ls []string
	for hv := range live {
		ls = append(ls, fmt.Sprint(hv))
	}
	sortStrings(ls)
	key = fmt.Sprintf("%v|%v/%d/%d|%v|%s", shut, wmSet, wmH, wmV, ls, vc.VerifDump())
	return
}

func sortStrings(a []string) {
	for i := 1; i < len(a); i++ {
		for j := i; j > 0 && a[j-1] > a[j]; j-- {
			a[j-1], a[j] = a[j], a[j-1]
		}
	}
}

func c15r(r *Rec, replay map[string]interface{}) {
	r.Rule = "BFS over sequences of For(hv) / CancelOlderThan(hv) / Shutdown() on the real ViewContexts, hv in {1,2} x {0,1,MaxView}; states de-duplicated by (reference registry, real registry dump); after every operation every context ever handed out is compared with the reference (cancelled iff superseded or shut down). distinct_nontrivial = distinct de-duplicated states with at least one live context"
	var alphabet []c15op
	for _, h := range []uint64{1, 2} {
		for _, v := range []uint64{0, 1, math.MaxUint64} {
			alphabet = append(alphabet, c15op{"for", h, v}, c15op{"cancel", h, v})
		}
	}
	alphabet = append(alphabet, c15op{"shutdown", 0, 0})
	if replay != nil {
		var ops []c15op
		for _, x := range replay["case"].([]interface{}) {
			m := x.(map[string]interface{})
			ops = append(ops, c15op{m["Kind"].(string), uint64(m["H"].(float64)), uint64(m["V"].(float64))})
		}
		v, _ := c15run(ops)
		for _, s := range v {
			f := strings.SplitN(s, "|", 2)
			r.Bad(f[0], f[1], ops)
		}
		return
	}
	maxLen := 6
	if r.Tier == "thorough" {
		maxLen = 9
	}
	seen := map[string]bool{}
	_, k0 := c15run(nil)
	seen[k0] = true
	r.States = 1
	frontier := [][]c15op{nil}
	for depth := 0; depth < maxLen && len(frontier) > 0; depth++ {
		var next [][]c15op
		for _, pre := range frontier {
			for _, o := range alphabet {
				ops := append(append([]c15op{}, pre...), o)
				var v []string
				var key string
				if p := guard(func() { v, key = c15run(ops) }); p != "" {
					v = []string{"C15:panic|" + p}
				}
				r.Transitions++
				r.Evals++
				for _, s := range v {
					f := strings.SplitN(s, "|", 2)
					r.Bad(f[0], f[1], ops)
				}
				if len(v) > 0 || seen[key] {
					continue
				}
				seen[key] = true
				r.States++
				if strings.Contains(key, "(H=") {
					r.distinct[key] = true
				}
				if len(ops) == 4 && len(r.Samples) < 3 && strings.Contains(key, "c=false") {
					r.Sample(map[string]interface{}{"ops": fmt.Sprint(ops), "real_registry": key[strings.LastIndex(key, "|")+1:]})
				}
				next = append(next, ops)
			}
		}
		frontier = next
	}
	r.Extra["max_sequence_length"] = maxLen
	// MaxView is serialised through float64 in replay files; keep exact value note
	r.Assume = []string{"positions drawn from {1,2} x {0,1,MaxUint64}"}
}
