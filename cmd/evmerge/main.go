// evmerge folds evidence/parts/<id>.*.json into evidence/<id>.json (properties decided by several engines).
package main

import (
	"encoding/json"
	"fmt"
	"os"
	"path/filepath"
	"sort"
	"strings"
)

func num(x interface{}) float64 {
	if f, ok := x.(float64); ok {
		return f
	}
	return 0
}

func main() {
	if len(os.Args) < 3 {
		fmt.Fprintln(os.Stderr, "usage: evmerge <verif root> <property id> [tier]")
		os.Exit(2)
	}
	root, id := os.Args[1], os.Args[2]
	files, _ := filepath.Glob(filepath.Join(root, "evidence", "parts", id+".*.json"))
	sort.Strings(files)
	if len(files) == 0 {
		fmt.Fprintln(os.Stderr, "evmerge: no parts for", id)
		os.Exit(2)
	}
	out := map[string]interface{}{"property_id": id, "level": "model_checking", "seed": 0}
	cov := map[string]interface{}{}
	parts := map[string]interface{}{}
	var samples []interface{}
	var assumptions []interface{}
	sums := map[string]float64{}
	exhaustive := true
	wall, viol := 0.0, 0.0
	var rules []string
	for _, f := range files {
		b, err := os.ReadFile(f)
		if err != nil {
			os.Exit(2)
		}
		var m map[string]interface{}
		if json.Unmarshal(b, &m) != nil {
			os.Exit(2)
		}
		part := strings.TrimSuffix(strings.TrimPrefix(filepath.Base(f), id+"."), ".json")
		c, _ := m["coverage"].(map[string]interface{})
		parts[part] = c
		out["tier"], out["seed"] = m["tier"], m["seed"]
		for _, k := range []string{"evaluations", "distinct_nontrivial", "states", "transitions", "traces_validated_against_impl"} {
			sums[k] += num(c[k])
		}
		if s, ok := c["samples"].([]interface{}); ok {
			for _, x := range s {
				samples = append(samples, map[string]interface{}{"part": part, "sample": x})
			}
		}
		if r, ok := c["rule"].(string); ok {
			rules = append(rules, part+": "+r)
		}
		if e, ok := c["exhaustive"].(bool); ok && !e {
			exhaustive = false
		}
		if a, ok := m["assumptions"].([]interface{}); ok {
			assumptions = append(assumptions, a...)
		}
		wall += num(m["wall_s"])
		viol += num(m["violations"])
	}
	for k, v := range sums {
		cov[k] = int64(v)
	}
	if sums["states"] == 0 {
		delete(cov, "states")
		delete(cov, "transitions")
		delete(cov, "traces_validated_against_impl")
	}
	cov["samples"] = samples
	cov["rule"] = strings.Join(rules, " || ")
	cov["exhaustive"] = exhaustive
	cov["parts"] = parts
	out["coverage"] = cov
	out["assumptions"] = assumptions
	out["wall_s"] = wall
	out["violations"] = int64(viol)
	b, _ := json.MarshalIndent(out, "", " ")
	if err := os.WriteFile(filepath.Join(root, "evidence", id+".json"), b, 0644); err != nil {
		os.Exit(2)
	}
}
