#!/bin/bash
# warms the build cache for the instrumented (overlay) build of engine E2
cd "$(dirname "$0")" || exit 2
./vsched.sh C19 shell -scenario S-trigger-A-r0 -show > /dev/null || exit 2
