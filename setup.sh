#!/bin/bash
# Run once after a fresh restore, offline: builds every engine against /repo and warms the Go build cache.
export GOFLAGS=-mod=mod GOPROXY=off GOSUMDB=off GOTOOLCHAIN=local
cd "$(dirname "$0")" || exit 2
mkdir -p bin evidence replays
[ -f go.sum ] || cp /repo/go.sum .
for p in ./cmd/*; do
  go build -tags verif -o "bin/$(basename "$p")" "$p" || exit 2
done
go build -race -tags verif -o bin/racecheck ./cmd/racecheck || exit 2
[ -x ./setup_e2.sh ] && { ./setup_e2.sh || exit 2; }
echo setup ok
