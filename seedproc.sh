#!/bin/bash
# usage: ./seedproc.sh <name> <agent worktree> <check id>...  — confirm a delivered seed, then run the named quick checks against it
name="$1"; aw="$2"; shift 2
cd "$(dirname "$(readlink -f "$0")")"
./seedconfirm.sh "$name" "$aw" 2>&1 | grep -E "CONFIRMED|demo W|suite|apply|compile"
SKIP_SUITE=1 ./seedtest2.sh "$name" "$(pwd)/seeded/$name/patch.diff" "$@" 2>&1 | cut -c1-300
