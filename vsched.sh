#!/bin/bash
# usage: ./vsched.sh <property id> <quick|thorough|replay> [path]   (engine E2)
# Generates the instrumentation overlay from /repo's CURRENT files, builds cmd/vsched with it, runs it.
export GOPROXY=off GOSUMDB=off GOTOOLCHAIN=local GODEBUG=goindex=0
export VERIF_ROOT="$(cd "$(dirname "$0")" && pwd)"
cd "$VERIF_ROOT" || exit 2
id="$1"; tier="${2:-quick}"; path="$3"
REPO="${VERIF_REPO:-/repo}"
case "$GOFLAGS" in
  *-modfile=*) ;;   # keep a -modfile handed down by check.sh
  *) export GOFLAGS="-mod=mod"
     if [ "$REPO" != /repo ]; then
       mkdir -p .scratch
       sed "s#=> /repo\$#=> $REPO#" go.mod > ".scratch/gov.$$.mod"; cp go.sum ".scratch/gov.$$.sum"
       export GOFLAGS="-mod=mod -modfile=$VERIF_ROOT/.scratch/gov.$$.mod"
     fi ;;
esac
mkdir -p bin evidence replays .scratch
scratch="$(mktemp -d "$VERIF_ROOT/.scratch/e2-XXXXXX")" || exit 2
trap 'rm -rf "$scratch" "$VERIF_ROOT/.scratch/gov.$$.mod" "$VERIF_ROOT/.scratch/gov.$$.sum"' EXIT
GOVNR="$(go list -m -f '{{.Dir}}' github.com/orbs-network/govnr 2>/dev/null)"
[ -d "$GOVNR" ] || GOVNR=/root/go/pkg/mod/github.com/orbs-network/govnr@v0.2.0
go build -o "$scratch/vsinst" ./cmd/vsinst || { echo "cannot build vsinst" >&2; exit 2; }
"$scratch/vsinst" "$scratch" \
  "$REPO/mainloop.go" "$REPO/workerloop.go" "$REPO/state/state.go" "$REPO/state/view_contexts.go" \
  "$REPO/services/electiontrigger/timer_based_election_trigger.go" \
  "$REPO/services/leanhelixterm/leanhelix_term.go" "$REPO/services/termincommittee/term_in_committee.go" \
  "$GOVNR/forever.go" "$GOVNR/once.go" "$GOVNR/shutdown.go" \
  "static:$GOVNR/panic.go=$VERIF_ROOT/vs/govnr_panic.go.txt" > "$scratch/overlay.json" || { echo "instrumentation failed" >&2; exit 2; }
go build -tags verif -overlay "$scratch/overlay.json" -o "$scratch/vsched" ./cmd/vsched 2> "$scratch/build.log" || { cat "$scratch/build.log" >&2; echo "build of the instrumented runtime failed" >&2; exit 2; }
if [ "$tier" = replay ]; then "$scratch/vsched" -replay "$path"; exit $?; fi
if [ "$tier" = show ]; then "$scratch/vsched" -scenario "$path" -show; exit $?; fi
if [ "$tier" = shell ]; then shift 2; "$scratch/vsched" "$@"; exit $?; fi
"$scratch/vsched" -prop "$id" -tier "$tier"
exit $?
