package pmc

import (
	"fmt"

	"verif/kit"
	"verif/ref"

	"github.com/orbs-network/lean-helix-go/services/interfaces"
	"github.com/orbs-network/lean-helix-go/services/messagesfactory"
	"github.com/orbs-network/lean-helix-go/services/randomseed"
	"github.com/orbs-network/lean-helix-go/spec/types/go/primitives"
	"github.com/orbs-network/lean-helix-go/spec/types/go/protocol"
)

// TwoHeight: exhaustive enumeration of "future-cache paths" across two heights on one real node.
// A follower at height 1 receives one early message for height 2 (every type x {genuine, member's message of
// another instance, outsider-signed, own sender id, height 3}) at one of three points of height 1; then the
// peers' genuine traffic commits height 1 and height 2. Every message that reaches the term of height 2 must be
// authentic, of this instance and of height 2 (C08/C17); the committed pairs must validate on a peer (C03);
// commits and rounds must be monotone (C13).
type TwoHeightResult struct {
	Cases    int
	Steps    int
	Viol     []Violation
	Samples  []string
	Reached2 int
}

func TwoHeight(c kit.Committee) *TwoHeightResult {
	res := &TwoHeightResult{}
	w := NewWorld(c, false, nil)
	me := 1
	w.Validate = validatorFor(w, len(c)-1)
	seedOf := func(h uint64) uint64 {
		if h <= 1 {
			return randomseed.CalculateRandomSeed(nil)
		}
		return randomseed.CalculateRandomSeed(kit.ChainSeedSig(h-1, randomseed.CalculateRandomSeed, randomseed.RandomSeedToBytes))
	}
	fac := func(i int, id primitives.MemberId, inst primitives.InstanceId, h uint64) *messagesfactory.MessageFactory {
		if id == nil {
			id = c[i].ID
		}
		return messagesfactory.NewMessageFactory(inst, &kit.KeyManager{Me: id}, id, seedOf(h))
	}
	peerMsgs := func(h uint64, tag string) []*interfaces.ConsensusRawMessage {
		blk := kit.NewBlock(h, tag)
		H := primitives.BlockHeight(h)
		var r []*interfaces.ConsensusRawMessage
		r = append(r, fac(0, nil, kit.Instance, h).CreatePreprepareMessage(H, 0, blk, kit.HashOf(blk)).ToConsensusRawMessage())
		for i := range c {
			if i != me && i != 0 {
				r = append(r, fac(i, nil, kit.Instance, h).CreatePrepareMessage(H, 0, kit.HashOf(blk)).ToConsensusRawMessage())
			}
		}
		for i := range c {
			if i != me && i != len(c)-1 { // the last member's COMMIT is withheld: the early message may stand in for it
				r = append(r, fac(i, nil, kit.Instance, h).CreateCommitMessage(H, 0, kit.HashOf(blk)).ToConsensusRawMessage())
			}
		}
		return r
	}
	last := len(c) - 1
	type early struct {
		name string
		mk   func() *interfaces.ConsensusRawMessage
	}
	var earlies []early
	b2 := kit.NewBlock(2, "B2")
	for _, v := range []struct {
		name string
		id   primitives.MemberId
		inst primitives.InstanceId
		h    uint64
	}{
		{"genuine", nil, kit.Instance, 2},
		{"other-instance", nil, kit.Instance + 1, 2},
		{"outsider", primitives.MemberId("xo"), kit.Instance, 2},
		{"own-sender-id", c[me].ID, kit.Instance, 2},
		{"height-3", nil, kit.Instance, 3},
	} {
		v := v
		H := primitives.BlockHeight(v.h)
		f := func() *messagesfactory.MessageFactory { return fac(last, v.id, v.inst, 2) }
		earlies = append(earlies,
			early{"COMMIT/" + v.name, func() *interfaces.ConsensusRawMessage { return f().CreateCommitMessage(H, 0, kit.HashOf(b2)).ToConsensusRawMessage() }},
			early{"PREPARE/" + v.name, func() *interfaces.ConsensusRawMessage { return f().CreatePrepareMessage(H, 0, kit.HashOf(b2)).ToConsensusRawMessage() }},
			early{"VIEW_CHANGE/" + v.name, func() *interfaces.ConsensusRawMessage { return f().CreateViewChangeMessage(H, 1, nil).ToConsensusRawMessage() }},
			early{"PREPREPARE/" + v.name, func() *interfaces.ConsensusRawMessage {
				return fac(0, v.id, v.inst, 2).CreatePreprepareMessage(H, 0, b2, kit.HashOf(b2)).ToConsensusRawMessage()
			}},
		)
	}
	seen := map[string]bool{}
	for _, e := range earlies {
		for point := 0; point < 3; point++ {
			res.Cases++
			n := NewLNode(w, me)
			var viol []Violation
			height := func() uint64 { return uint64(n.V.S.Height()) }
			n.Store.OnStore = func(kind string, inst uint64, h uint64, ok bool) {
				if inst != uint64(kit.Instance) {
					viol = append(viol, Violation{Prop: "C08", Clause: "foreign-instance-message-reached-term", Detail: fmt.Sprintf("%s of instance %d handed to storage at height %d (early message %s)", kind, inst, height(), e.name)})
				}
				if h != height() {
					viol = append(viol, Violation{Prop: "C17", Clause: "message-reached-term-of-other-height", Detail: fmt.Sprintf("%s of height %d handed to storage while the node is at height %d (early message %s)", kind, h, height(), e.name)})
				}
			}
			step := func(raw *interfaces.ConsensusRawMessage) {
				obs := n.Step(Event{Kind: 'd'}, raw, ref.Parse(raw), nil)
				res.Steps++
				viol = append(viol, obs.Viol...)
			}
			obs := n.Start()
			viol = append(viol, obs.Viol...)
			m1 := peerMsgs(1, "B1")
			m1 = append(m1, fac(last, nil, kit.Instance, 1).CreateCommitMessage(1, 0, kit.HashOf(kit.NewBlock(1, "B1"))).ToConsensusRawMessage())
			cut := []int{0, 2, len(m1) - 1}[point]
			for _, m := range m1[:cut] {
				step(m)
			}
			step(e.mk())
			for _, m := range m1[cut:] {
				step(m)
			}
			if height() == 2 {
				res.Reached2++
				for _, m := range peerMsgs(2, "B2") {
					step(m)
				}
				// complete the quorum and re-validate
				step(fac(last, nil, kit.Instance, 2).CreateCommitMessage(2, 0, kit.HashOf(b2)).ToConsensusRawMessage())
				if len(n.Commits) != 2 {
					viol = append(viol, Violation{Prop: "C05", Clause: "no-commit-after-early-message", Detail: fmt.Sprintf("height 2 was not committed from the peers' genuine traffic after the early message %s (commits %v)", e.name, n.Commits)})
				}
			} else {
				viol = append(viol, Violation{Prop: "C05", Clause: "height-1-not-committed", Detail: fmt.Sprintf("height 1 not committed (early message %s at point %d)", e.name, point)})
			}
			if len(res.Samples) < 3 {
				res.Samples = append(res.Samples, fmt.Sprintf("early %s for height 2 at point %d of height 1 -> commits %v", e.name, point, n.Commits))
			}
			for _, v := range viol {
				if !seen[v.FP()] {
					seen[v.FP()] = true
					res.Viol = append(res.Viol, v)
				}
			}
		}
	}
	_ = protocol.LEAN_HELIX_COMMIT
	return res
}
