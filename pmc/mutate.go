package pmc

import (
	"bytes"
	"fmt"
	"os"
	"sort"
	"strings"
	"sync"
	"sync/atomic"

	"verif/kit"
	"verif/ref"

	"github.com/orbs-network/lean-helix-go/services/interfaces"
	"github.com/orbs-network/lean-helix-go/services/randomseed"
	"github.com/orbs-network/lean-helix-go/spec/types/go/primitives"
	"github.com/orbs-network/lean-helix-go/spec/types/go/protocol"
)

// Mutation differential (C07, C08): every explored local node state x every message of the mutation alphabet.
// One local step each; oracle: "influence => reference necessary conditions" plus all per-node monitors.

type brefT struct {
	T    protocol.MessageType
	I    primitives.InstanceId
	H    primitives.BlockHeight
	V    primitives.View
	Hash []byte
}

func (b brefT) builder() *protocol.BlockRefBuilder {
	return &protocol.BlockRefBuilder{MessageType: b.T, InstanceId: b.I, BlockHeight: b.H, View: b.V, BlockHash: b.Hash}
}

type signerT struct {
	ID   primitives.MemberId
	Mode string // valid | garbage | empty | replay (keep the given signature)
	Sig  []byte
}

func (s signerT) sign(h primitives.BlockHeight, hdr []byte) *protocol.SenderSignatureBuilder {
	switch s.Mode {
	case "valid":
		return &protocol.SenderSignatureBuilder{MemberId: s.ID, Signature: kit.Sig("C", s.ID, h, hdr)}
	case "empty":
		return &protocol.SenderSignatureBuilder{MemberId: s.ID}
	case "replay":
		return &protocol.SenderSignatureBuilder{MemberId: s.ID, Signature: s.Sig}
	}
	return &protocol.SenderSignatureBuilder{MemberId: s.ID, Signature: []byte("garbage")}
}

func wrap(content *protocol.LeanhelixContentBuilder, blk interfaces.Block) *interfaces.ConsensusRawMessage {
	return &interfaces.ConsensusRawMessage{Content: content.Build().Raw(), Block: blk}
}

func mkBlockRefMsg(env string, b brefT, s signerT, share []byte, blk interfaces.Block) *interfaces.ConsensusRawMessage {
	return mkBlockRefMsgPad(env, b, s, share, blk, nil)
}

// mkBlockRefMsgPad: with pad != nil the signed header is the canonical encoding followed by pad (a non-canonical
// encoding of the same fields), signed as it stands.
func mkBlockRefMsgPad(env string, b brefT, s signerT, share []byte, blk interfaces.Block, pad []byte) *interfaces.ConsensusRawMessage {
	hdr := b.builder()
	if pad != nil {
		hdr = protocol.BlockRefBuilderFromRaw(nonCanonical(hdr.Build().Raw(), pad, func(m []byte) bool {
			x, y := protocol.BlockRefReader(m), protocol.BlockRefReader(hdr.Build().Raw())
			return x.MessageType() == y.MessageType() && x.InstanceId() == y.InstanceId() && x.BlockHeight() == y.BlockHeight() && x.View() == y.View() && bytes.Equal(x.BlockHash(), y.BlockHash())
		}))
	}
	snd := s.sign(b.H, hdr.Build().Raw())
	switch env {
	case ref.KPP:
		return wrap(&protocol.LeanhelixContentBuilder{Message: protocol.LEANHELIX_CONTENT_MESSAGE_PREPREPARE_MESSAGE, PreprepareMessage: &protocol.PreprepareContentBuilder{SignedHeader: hdr, Sender: snd}}, blk)
	case ref.KP:
		return wrap(&protocol.LeanhelixContentBuilder{Message: protocol.LEANHELIX_CONTENT_MESSAGE_PREPARE_MESSAGE, PrepareMessage: &protocol.PrepareContentBuilder{SignedHeader: hdr, Sender: snd}}, nil)
	default:
		return wrap(&protocol.LeanhelixContentBuilder{Message: protocol.LEANHELIX_CONTENT_MESSAGE_COMMIT_MESSAGE, CommitMessage: &protocol.CommitContentBuilder{SignedHeader: hdr, Sender: snd, Share: share}}, nil)
	}
}

// ncAlign as pad: instead of appending bytes, flip a byte the reader never looks at (alignment padding between
// fields): same length, same fields, other bytes.
var ncAlign = []byte{0xA1}

// nonCanonical returns an encoding of the same fields that differs from the canonical bytes: the canonical bytes
// followed by pad, or (pad == ncAlign) the canonical bytes with the first byte changed that leaves every field as it was.
func nonCanonical(canon, pad []byte, sameFields func([]byte) bool) []byte {
	if len(pad) == 1 && pad[0] == ncAlign[0] {
		for i := range canon {
			m := append([]byte{}, canon...)
			m[i] ^= 0xff
			ok := false
			func() {
				defer func() { recover() }()
				ok = sameFields(m)
			}()
			if ok {
				return m
			}
		}
	}
	return append(append([]byte{}, canon...), pad...)
}

type proofT struct {
	Present  bool
	PP, P    brefT
	PPSender signerT
	PSenders []signerT
}

func (p proofT) builder() *protocol.PreparedProofBuilder {
	if !p.Present {
		return nil
	}
	ppRaw, pRaw := p.PP.builder().Build().Raw(), p.P.builder().Build().Raw()
	pb := &protocol.PreparedProofBuilder{PreprepareBlockRef: p.PP.builder(), PreprepareSender: p.PPSender.sign(p.PP.H, ppRaw), PrepareBlockRef: p.P.builder()}
	for _, s := range p.PSenders {
		pb.PrepareSenders = append(pb.PrepareSenders, s.sign(p.P.H, pRaw))
	}
	return pb
}

type voteT struct {
	T     protocol.MessageType
	I     primitives.InstanceId
	H     primitives.BlockHeight
	V     primitives.View
	Proof proofT
	S     signerT
	Pad   []byte // non-nil: signed header = canonical bytes followed by these
	// RawHdr non-nil: the signed header is these bytes as they stand (a header another message type was signed over,
	// e.g. the block ref of a genuine PREPARE), with S as the sender part
	RawHdr []byte
}

func (v voteT) builder() *protocol.ViewChangeMessageContentBuilder {
	if v.RawHdr != nil {
		return &protocol.ViewChangeMessageContentBuilder{SignedHeader: protocol.ViewChangeHeaderBuilderFromRaw(v.RawHdr), Sender: v.S.sign(v.H, v.RawHdr)}
	}
	hdr := &protocol.ViewChangeHeaderBuilder{MessageType: v.T, InstanceId: v.I, BlockHeight: v.H, View: v.V, PreparedProof: v.Proof.builder()}
	if v.Pad != nil {
		canon := hdr.Build().Raw()
		hdr = protocol.ViewChangeHeaderBuilderFromRaw(nonCanonical(canon, v.Pad, func(m []byte) bool {
			x, y := protocol.ViewChangeHeaderReader(m), protocol.ViewChangeHeaderReader(canon)
			return x.MessageType() == y.MessageType() && x.InstanceId() == y.InstanceId() && x.BlockHeight() == y.BlockHeight() && x.View() == y.View() && bytes.Equal(x.RawPreparedProof(), y.RawPreparedProof())
		}))
	}
	return &protocol.ViewChangeMessageContentBuilder{SignedHeader: hdr, Sender: v.S.sign(v.H, hdr.Build().Raw())}
}

func mkVC(v voteT, blk interfaces.Block) *interfaces.ConsensusRawMessage {
	return wrap(&protocol.LeanhelixContentBuilder{Message: protocol.LEANHELIX_CONTENT_MESSAGE_VIEW_CHANGE_MESSAGE, ViewChangeMessage: v.builder()}, blk)
}

type nvT struct {
	T     protocol.MessageType
	I     primitives.InstanceId
	H     primitives.BlockHeight
	V     primitives.View
	Votes []voteT
	S     signerT
	PP    brefT
	PPS   signerT
}

func mkNV(n nvT, blk interfaces.Block) *interfaces.ConsensusRawMessage {
	hdr := &protocol.NewViewHeaderBuilder{MessageType: n.T, InstanceId: n.I, BlockHeight: n.H, View: n.V}
	for _, v := range n.Votes {
		hdr.ViewChangeConfirmations = append(hdr.ViewChangeConfirmations, v.builder())
	}
	pp := n.PP.builder()
	c := &protocol.NewViewMessageContentBuilder{SignedHeader: hdr, Sender: n.S.sign(n.H, hdr.Build().Raw()),
		Message: &protocol.PreprepareContentBuilder{SignedHeader: pp, Sender: n.PPS.sign(n.PP.H, pp.Build().Raw())}}
	return wrap(&protocol.LeanhelixContentBuilder{Message: protocol.LEANHELIX_CONTENT_MESSAGE_NEW_VIEW_MESSAGE, NewViewMessage: c}, blk)
}

// Alphabet builds the mutation alphabet from the message universe of an exploration.
func (e *Engine) Alphabet() []int {
	cfg := e.Cfg
	r := e.W.R
	H := primitives.BlockHeight(1)
	var out []int
	seen := map[int]bool{}
	add := func(raw *interfaces.ConsensusRawMessage, tag string) {
		id := e.intern(raw, tag)
		if !seen[id] {
			seen[id] = true
			out = append(out, id)
		}
	}
	var byz []primitives.MemberId
	for _, b := range cfg.Byz {
		byz = append(byz, cfg.C[b].ID)
	}
	outsider := primitives.MemberId("xo")
	owned := append(append([]primitives.MemberId{}, byz...), outsider)
	var honest []primitives.MemberId
	for _, i := range e.Honest {
		honest = append(honest, cfg.C[i].ID)
	}
	// sender/signature variants: the original (replayed signature), every owned key (valid), and for the
	// honest ids a garbage, an empty and a replayed-from-another-header signature (spread over the ids)
	signers := func(orig signerT) []signerT {
		s := []signerT{orig}
		for _, id := range owned {
			s = append(s, signerT{ID: id, Mode: "valid"})
		}
		modes := []string{"garbage", "empty", "replay"}
		for k, id := range honest {
			s = append(s, signerT{ID: id, Mode: modes[k%3], Sig: orig.Sig})
		}
		return s
	}
	fieldSigner := func(s signerT, orig signerT) bool { // field mutations only under the original signature and the first owned key
		return s.Mode == "replay" && string(s.ID) == string(orig.ID) || s.Mode == "valid" && string(s.ID) == string(owned[0])
	}
	blkA, blkO := kit.NewBlock(1, cfg.Alphabet[0]), kit.NewBlock(1, "OTHER")
	views := []uint64{0, 1, 2, 3, uint64(len(cfg.C)), 1 << 63, ^uint64(0)}
	n := e.nm
	for id := 0; id < n; id++ {
		m := e.msgs[id]
		i := m.Info
		if i.Bad || m.Prim != "" {
			continue
		}
		add(m.Raw, "orig")
		switch i.Kind {
		case ref.KPP, ref.KP, ref.KC:
			parsed := interfaces.ToConsensusMessage(m.Raw)
			var sig []byte
			var blk interfaces.Block = m.Raw.Block
			switch x := parsed.(type) {
			case *interfaces.PreprepareMessage:
				sig = x.Content().Sender().Signature()
			case *interfaces.PrepareMessage:
				sig = x.Content().Sender().Signature()
			case *interfaces.CommitMessage:
				sig = x.Content().Sender().Signature()
			}
			base := brefT{protocol.MessageType(i.Hdr.Type), primitives.InstanceId(i.Hdr.Inst), primitives.BlockHeight(i.Hdr.Height), primitives.View(i.Hdr.View), hexb(i.Hdr.Hash)}
			orig := signerT{ID: primitives.MemberId(i.Sender.ID), Mode: "replay", Sig: sig}
			shares := [][]byte{i.Share, kit.Share(byz0(byz, outsider), base.H, []byte("x")), []byte("garbage"), nil}
			if i.Kind != ref.KC {
				shares = [][]byte{nil}
			}
			for _, s := range signers(orig) {
				// sender / signature variants on the unchanged header (and own-key shares for COMMIT)
				sh := i.Share
				if i.Kind == ref.KC && s.Mode == "valid" {
					sh = kit.Share(s.ID, base.H, seedBytes())
				}
				add(mkBlockRefMsg(i.Kind, base, s, sh, blk), "sender")
				if !fieldSigner(s, orig) {
					continue
				}
				// one field at a time
				for _, env := range []string{ref.KPP, ref.KP, ref.KC} {
					if env != i.Kind {
						b2 := blk
						if env == ref.KPP && b2 == nil {
							b2 = blkA
						}
						add(mkBlockRefMsg(env, base, s, sh, b2), "envelope")
					}
				}
				for t := protocol.MessageType(0); t <= 5; t++ {
					if t != base.T {
						b := base
						b.T = t
						add(mkBlockRefMsg(i.Kind, b, s, sh, blk), "hdrtype")
					}
				}
				for _, d := range []int{-1, 1} {
					b := base
					b.I = primitives.InstanceId(int64(b.I) + int64(d))
					add(mkBlockRefMsg(i.Kind, b, s, sh, blk), "instance")
					b = base
					b.H = primitives.BlockHeight(int64(b.H) + int64(d))
					add(mkBlockRefMsg(i.Kind, b, s, sh, blk), "height")
					// the same member's GENUINE message of another instance / height (same keys), replayed here
					gs := signerT{ID: s.ID, Mode: "valid"}
					b = base
					b.I = primitives.InstanceId(int64(b.I) + int64(d))
					add(mkBlockRefMsg(i.Kind, b, gs, kit.Share(s.ID, b.H, seedBytes()), blk), "cross-instance-replay")
					b = base
					b.H = primitives.BlockHeight(int64(b.H) + int64(d))
					add(mkBlockRefMsg(i.Kind, b, gs, kit.Share(s.ID, b.H, seedBytes()), blk), "cross-height-replay")
				}
				for _, v := range views {
					if v != uint64(base.V) {
						b := base
						b.V = primitives.View(v)
						add(mkBlockRefMsg(i.Kind, b, s, sh, blk), "view")
					}
				}
				for _, hsh := range [][]byte{kit.HashOf(blkO), []byte("zz"), nil} {
					b := base
					b.Hash = hsh
					add(mkBlockRefMsg(i.Kind, b, s, sh, blk), "hash")
				}
				if i.Kind == ref.KPP {
					add(mkBlockRefMsg(i.Kind, base, s, sh, blkO), "block")
					add(mkBlockRefMsg(i.Kind, base, s, sh, nil), "block")
				}
				for _, x := range shares[1:] {
					add(mkBlockRefMsg(i.Kind, base, s, x, blk), "share")
				}
			}
		case ref.KVC:
			parsed := interfaces.ToConsensusMessage(m.Raw).(*interfaces.ViewChangeMessage)
			orig := signerT{ID: primitives.MemberId(i.Sender.ID), Mode: "replay", Sig: parsed.Content().Sender().Signature()}
			base := voteT{T: protocol.MessageType(i.Hdr.Type), I: primitives.InstanceId(i.Hdr.Inst), H: primitives.BlockHeight(i.Hdr.Height), V: primitives.View(i.Hdr.View), Proof: e.proofOf(parsed), S: orig}
			for _, s := range signers(orig) {
				v := base
				v.S = s
				add(mkVC(v, m.Raw.Block), "sender")
				if !fieldSigner(s, orig) {
					continue
				}
				for _, vw := range views {
					if vw != uint64(base.V) {
						v := base
						v.S, v.V = s, primitives.View(vw)
						add(mkVC(v, m.Raw.Block), "view")
					}
				}
				for _, d := range []int{-1, 1} {
					v := base
					v.S, v.I = s, primitives.InstanceId(int64(base.I)+int64(d))
					add(mkVC(v, m.Raw.Block), "instance")
					v = base
					v.S, v.H = s, primitives.BlockHeight(int64(base.H)+int64(d))
					add(mkVC(v, m.Raw.Block), "height")
					gs := signerT{ID: s.ID, Mode: "valid"}
					v = base
					v.S, v.I = gs, primitives.InstanceId(int64(base.I)+int64(d))
					add(mkVC(v, m.Raw.Block), "cross-instance-replay")
					v = base
					v.S, v.H = gs, primitives.BlockHeight(int64(base.H)+int64(d))
					add(mkVC(v, m.Raw.Block), "cross-height-replay")
				}
				for t := protocol.MessageType(0); t <= 5; t++ {
					if t != base.T {
						v := base
						v.S, v.T = s, t
						add(mkVC(v, m.Raw.Block), "hdrtype")
					}
				}
				if base.Proof.Present {
					for tag, p := range e.proofVariants(base.Proof, owned, honest) {
						v := base
						v.S, v.Proof = s, p
						add(mkVC(v, blockFor(tag, m.Raw.Block)), "proof-"+tag)
					}
					v := base
					v.S = s
					add(mkVC(v, nil), "block")
					add(mkVC(v, blkO), "block")
				} else {
					v := base
					v.S = s
					add(mkVC(v, blkA), "block")
				}
			}
		case ref.KNV:
			// honest NEW_VIEWs: sender/signature variants only (content changes need the leader's key)
			add(m.Raw, "orig")
		}
	}
	// VIEW_CHANGE votes by owned keys carrying every assemblable / corrupted proof, to every honest leader view
	soupAll := []Sent{}
	for id := 0; id < n; id++ {
		if e.msgs[id].Prim == "" {
			soupAll = append(soupAll, Sent{id, 0})
		}
	}
	proofs := e.adv.proofs(soupAll, 1)
	if len(proofs) > 3 {
		proofs = proofs[:3]
	}
	for v := uint64(1); v <= cfg.MaxView+1; v++ {
		for _, id := range owned {
			s := signerT{ID: id, Mode: "valid"}
			add(mkVC(voteT{T: protocol.LEAN_HELIX_VIEW_CHANGE, I: kit.Instance, H: H, V: primitives.View(v), S: s}, nil), "byz-vote")
			for k := range proofs {
				ps := &proofs[k]
				base := proofT{Present: true,
					PP:       brefT{protocol.LEAN_HELIX_PREPREPARE, kit.Instance, H, primitives.View(ps.view), hexb(ps.hash)},
					P:        brefT{protocol.LEAN_HELIX_PREPARE, kit.Instance, H, primitives.View(ps.view), hexb(ps.hash)},
					PPSender: signerT{ID: ps.ppm.Content().Sender().MemberId(), Mode: "replay", Sig: ps.ppm.Content().Sender().Signature()}}
				for _, p := range ps.preps {
					base.PSenders = append(base.PSenders, signerT{ID: p.Content().Sender().MemberId(), Mode: "replay", Sig: p.Content().Sender().Signature()})
				}
				blk := kit.NewBlock(1, ps.tag)
				add(mkVC(voteT{T: protocol.LEAN_HELIX_VIEW_CHANGE, I: kit.Instance, H: H, V: primitives.View(v), Proof: base, S: s}, blk), "byz-vote-proof")
				for tag, p := range e.proofVariants(base, owned, honest) {
					add(mkVC(voteT{T: protocol.LEAN_HELIX_VIEW_CHANGE, I: kit.Instance, H: H, V: primitives.View(v), Proof: p, S: s}, blockFor(tag, blk)), "byz-vote-proof-"+tag)
				}
			}
		}
	}
	// NEW_VIEW constructions by Byzantine leaders
	for _, b := range byz {
		for v := uint64(1); v <= cfg.MaxView; v++ {
			if r.Leader(v) == string(b) {
				e.nvVariants(b, v, proofs, owned, honest, add)
			}
		}
		// a NEW_VIEW for views the Byzantine member does not lead / extreme views
		for _, v := range []uint64{1, 2, 3, 1 << 63, ^uint64(0)} {
			if r.Leader(v) != string(b) {
				s := signerT{ID: b, Mode: "valid"}
				votes := quorumVotes(cfg.C, r, b, primitives.View(v), honest, "garbage")
				add(mkNV(nvT{T: protocol.LEAN_HELIX_NEW_VIEW, I: kit.Instance, H: H, V: primitives.View(v), Votes: votes, S: s,
					PP: brefT{protocol.LEAN_HELIX_PREPREPARE, kit.Instance, H, primitives.View(v), kit.HashOf(blkA)}, PPS: s}, blkA), "nv-not-leader")
			}
		}
	}
	sort.Ints(out)
	return out
}

func byz0(byz []primitives.MemberId, out primitives.MemberId) primitives.MemberId {
	if len(byz) > 0 {
		return byz[0]
	}
	return out
}

func (e *Engine) proofOf(vc *interfaces.ViewChangeMessage) proofT {
	p := vc.Content().SignedHeader().PreparedProof()
	if p == nil || len(p.Raw()) == 0 {
		return proofT{}
	}
	rf := func(b *protocol.BlockRef) brefT {
		return brefT{b.MessageType(), b.InstanceId(), b.BlockHeight(), b.View(), append([]byte{}, b.BlockHash()...)}
	}
	r := proofT{Present: true, PP: rf(p.PreprepareBlockRef()), P: rf(p.PrepareBlockRef()),
		PPSender: signerT{ID: p.PreprepareSender().MemberId(), Mode: "replay", Sig: p.PreprepareSender().Signature()}}
	it := p.PrepareSendersIterator()
	for it.HasNext() {
		s := it.NextPrepareSenders()
		r.PSenders = append(r.PSenders, signerT{ID: s.MemberId(), Mode: "replay", Sig: s.Signature()})
	}
	return r
}

// proofVariants: the prepared-proof corruptions of C08.
func (e *Engine) proofVariants(p proofT, owned, honest []primitives.MemberId) map[string]proofT {
	cp := func() proofT {
		q := p
		q.PSenders = append([]signerT{}, p.PSenders...)
		return q
	}
	out := map[string]proofT{}
	if len(p.PSenders) > 0 {
		q := cp()
		q.PSenders = q.PSenders[:len(q.PSenders)-1]
		out["fewer-prepares"] = q
		q = cp()
		q.PSenders = append(q.PSenders, q.PSenders[0])
		out["duplicate-prepare-sender"] = q
		q = cp()
		q.PSenders[0] = signerT{ID: q.PSenders[0].ID, Mode: "garbage"}
		out["bad-prepare-signature"] = q
		q = cp()
		q.PSenders = q.PSenders[:1]
		q.PSenders = append(q.PSenders, q.PSenders[0], q.PSenders[0])
		out["one-sender-thrice"] = q
	}
	q := cp()
	q.PSenders = append(q.PSenders, signerT{ID: p.PPSender.ID, Mode: "garbage"})
	out["leader-as-prepare-sender"] = q
	for _, id := range owned {
		q = cp()
		q.PSenders = append(q.PSenders[:max(0, len(q.PSenders)-1)], signerT{ID: id, Mode: "valid"})
		out["owned-prepare-sender-"+string(id)] = q
	}
	q = cp()
	q.PP.V, q.P.V = q.PP.V+5, q.P.V+5
	out["proof-view-not-earlier"] = q
	q = cp()
	q.PP.H, q.P.H = q.PP.H+1, q.P.H+1
	out["proof-other-height"] = q
	q = cp()
	q.P.Hash = kit.HashOf(kit.NewBlock(1, "OTHER"))
	out["mixed-hashes"] = q
	q = cp()
	q.PP.I, q.P.I = q.PP.I+1, q.P.I+1
	out["cross-instance"] = q
	// a prepared certificate of another instance (same keys): every signature genuinely valid over the other instance's refs
	q = cp()
	q.PP.I, q.P.I = q.PP.I+1, q.P.I+1
	q.PPSender = signerT{ID: q.PPSender.ID, Mode: "valid"}
	for k := range q.PSenders {
		q.PSenders[k] = signerT{ID: q.PSenders[k].ID, Mode: "valid"}
	}
	out["cross-instance-genuine"] = q
	q = cp()
	q.PP.T, q.P.T = protocol.LEAN_HELIX_COMMIT, protocol.LEAN_HELIX_COMMIT
	q.PPSender = signerT{ID: q.PPSender.ID, Mode: "valid"}
	for k := range q.PSenders {
		q.PSenders[k] = signerT{ID: q.PSenders[k].ID, Mode: "valid"}
	}
	out["genuine-commit-signatures-as-proof"] = q
	q = cp()
	q.PP.T, q.P.T = q.P.T, q.PP.T
	out["refs-swapped"] = q
	q = cp()
	q.P.T = protocol.LEAN_HELIX_COMMIT
	out["commit-refs-as-prepares"] = q
	q = cp()
	q.PPSender = signerT{ID: p.PPSender.ID, Mode: "garbage"}
	out["bad-preprepare-signature"] = q
	// if the adversary led the proven view it can re-sign the PREPREPARE part at will while the PREPARE part
	// stays genuine: each mismatch between the two parts is then the ONLY thing wrong with the proof
	for _, id := range owned {
		if string(id) != string(p.PPSender.ID) {
			continue
		}
		me := signerT{ID: id, Mode: "valid"}
		q = cp()
		q.PP.Hash, q.PPSender = kit.HashOf(kit.NewBlock(1, "OTHER")), me
		out["owned-preprepare-other-hash"] = q
		q = cp()
		q.PP.V, q.PPSender = q.PP.V+uint64ToView(uint64(len(e.Cfg.C))), me
		out["owned-preprepare-other-view"] = q
		q = cp()
		q.PP.H, q.PPSender = q.PP.H+1, me
		out["owned-preprepare-other-height"] = q
		q = cp()
		q.PP.I, q.PPSender = q.PP.I+1, me
		out["owned-preprepare-other-instance"] = q
	}
	q = cp()
	q.P.V = q.P.V + 1
	out["prepare-ref-other-view"] = q
	return out
}

func quorumVotes(c kit.Committee, r *ref.Rules, me primitives.MemberId, v primitives.View, honest []primitives.MemberId, mode string) []voteT {
	votes := []voteT{{T: protocol.LEAN_HELIX_VIEW_CHANGE, I: kit.Instance, H: 1, V: v, S: signerT{ID: me, Mode: "valid"}}}
	ids := map[string]bool{string(me): true}
	for _, h := range honest {
		if r.IsQuorum(ids) {
			break
		}
		ids[string(h)] = true
		votes = append(votes, voteT{T: protocol.LEAN_HELIX_VIEW_CHANGE, I: kit.Instance, H: 1, V: v, S: signerT{ID: h, Mode: mode}})
	}
	return votes
}

// nvVariants: NEW_VIEW constructions of a Byzantine leader b for view v (C07's mutation list).
func (e *Engine) nvVariants(b primitives.MemberId, v uint64, proofs []proofSrc, owned, honest []primitives.MemberId, add func(*interfaces.ConsensusRawMessage, string)) {
	cfg := e.Cfg
	r := e.W.R
	H, V := primitives.BlockHeight(1), primitives.View(v)
	me := signerT{ID: b, Mode: "valid"}
	blkA := kit.NewBlock(1, cfg.Alphabet[0])
	// genuine votes for this view seen in the universe
	var genuine []voteT
	var gblocks []interfaces.Block
	for id := 0; id < e.nm; id++ {
		m := e.msgs[id]
		if m.Prim == "" && m.Info.Kind == ref.KVC && m.Info.Hdr.View == v && m.Info.Hdr.Height == 1 {
			parsed := interfaces.ToConsensusMessage(m.Raw).(*interfaces.ViewChangeMessage)
			genuine = append(genuine, voteT{T: protocol.LEAN_HELIX_VIEW_CHANGE, I: kit.Instance, H: H, V: V, Proof: e.proofOf(parsed),
				S: signerT{ID: primitives.MemberId(m.Info.Sender.ID), Mode: "replay", Sig: parsed.Content().Sender().Signature()}})
			gblocks = append(gblocks, m.Raw.Block)
		}
	}
	// at most one vote per sender (prefer one carrying a proof), at most three senders
	{
		bySender := map[string]int{}
		var g2 []voteT
		var b2 []interfaces.Block
		for i, g := range genuine {
			if k, ok := bySender[string(g.S.ID)]; ok {
				if g.Proof.Present && !g2[k].Proof.Present {
					g2[k], b2[k] = g, gblocks[i]
				}
				continue
			}
			if len(g2) < 3 {
				bySender[string(g.S.ID)] = len(g2)
				g2, b2 = append(g2, g), append(b2, gblocks[i])
			}
		}
		genuine, gblocks = g2, b2
	}
	own := voteT{T: protocol.LEAN_HELIX_VIEW_CHANGE, I: kit.Instance, H: H, V: V, S: me}
	mk := func(tag string, votes []voteT, view primitives.View, pp brefT, pps signerT, s signerT, blk interfaces.Block) {
		add(mkNV(nvT{T: protocol.LEAN_HELIX_NEW_VIEW, I: kit.Instance, H: H, V: view, Votes: votes, S: s, PP: pp, PPS: pps}, blk), "nv-"+tag)
	}
	ppA := brefT{protocol.LEAN_HELIX_PREPREPARE, kit.Instance, H, V, kit.HashOf(blkA)}
	// vote sets: genuine subsets (+own)
	for mask := 0; mask < 1<<uint(len(genuine)); mask++ {
		votes := []voteT{own}
		ids := map[string]bool{string(b): true}
		var best *voteT
		var bestBlk interfaces.Block
		for i := range genuine {
			if mask&(1<<uint(i)) != 0 {
				votes = append(votes, genuine[i])
				ids[string(genuine[i].S.ID)] = true
				if genuine[i].Proof.Present && (best == nil || genuine[i].Proof.PP.V > best.Proof.PP.V) {
					best, bestBlk = &genuine[i], gblocks[i]
				}
			}
		}
		tag := "below-quorum"
		if r.IsQuorum(ids) {
			tag = "quorum"
		}
		if best != nil {
			pp := brefT{protocol.LEAN_HELIX_PREPREPARE, kit.Instance, H, V, best.Proof.PP.Hash}
			mk(tag+"-locked", votes, V, pp, me, me, bestBlk)
			mk(tag+"-ignores-lock", votes, V, ppA, me, me, blkA)
			mk(tag+"-locked-wrong-hash", votes, V, ppA, me, me, bestBlk)
		} else {
			mk(tag+"-fresh", votes, V, ppA, me, me, blkA)
		}
		if tag == "quorum" {
			// single-fault mutants keep everything else valid: the proposal is the one this vote set forces (the block of the
			// highest proof if a vote carries one, else the fresh block), so that the mutated part is the ONLY reason to reject
			gpp, gblk := ppA, interfaces.Block(blkA)
			if best != nil {
				gpp, gblk = brefT{protocol.LEAN_HELIX_PREPREPARE, kit.Instance, H, V, best.Proof.PP.Hash}, bestBlk
			}
			// duplicate / dropped / re-attributed votes
			mk("duplicate-vote", append(append([]voteT{}, votes...), votes[len(votes)-1]), V, gpp, me, me, gblk)
			mk("dropped-vote-padded-with-duplicate", append(append([]voteT{}, votes[:len(votes)-1]...), votes[0]), V, gpp, me, me, gblk)
			for i := 1; i < len(votes); i++ {
				for _, mode := range []string{"garbage", "empty"} {
					vs := append([]voteT{}, votes...)
					vs[i].S = signerT{ID: vs[i].S.ID, Mode: mode}
					mk("vote-sig-"+mode, vs, V, gpp, me, me, gblk)
				}
				vs := append([]voteT{}, votes...)
				vs[i].V = V + 1
				mk("vote-other-view", vs, V, gpp, me, me, gblk)
				vs = append([]voteT{}, votes...)
				vs[i].H = H + 1
				mk("vote-other-height", vs, V, gpp, me, me, gblk)
				vs = append([]voteT{}, votes...)
				vs[i].I = kit.Instance + 1
				mk("vote-other-instance", vs, V, gpp, me, me, gblk)
				vs = append([]voteT{}, votes...)
				vs[i].I = kit.Instance + 1
				vs[i].S = signerT{ID: vs[i].S.ID, Mode: "valid"}
				mk("vote-cross-instance-genuine", vs, V, gpp, me, me, gblk)
			}
			// a vote that declares another message type: the leader's own, genuinely signed as it stands; and a genuine
			// PREPARE / COMMIT of a correct member for this very view in the place of its vote (same layout, signature verifies)
			for _, ty := range []protocol.MessageType{protocol.LEAN_HELIX_PREPARE, protocol.LEAN_HELIX_COMMIT, protocol.LEAN_HELIX_PREPREPARE, protocol.LEAN_HELIX_NEW_VIEW} {
				vs := append([]voteT{}, votes...)
				vs[0].T = ty
				mk("own-vote-other-type", vs, V, gpp, me, me, gblk)
			}
			for id := 0; id < e.nm; id++ {
				m := e.msgs[id]
				if m.Prim != "" || (m.Info.Kind != ref.KP && m.Info.Kind != ref.KC) || m.Info.Hdr.View != v || m.Info.Hdr.Height != 1 {
					continue
				}
				var hdr, sig []byte
				switch pm := interfaces.ToConsensusMessage(m.Raw).(type) {
				case *interfaces.PrepareMessage:
					hdr, sig = pm.Content().SignedHeader().Raw(), pm.Content().Sender().Signature()
				case *interfaces.CommitMessage:
					hdr, sig = pm.Content().SignedHeader().Raw(), pm.Content().Sender().Signature()
				}
				for i := 1; i < len(votes); i++ {
					vs := append([]voteT{}, votes...)
					vs[i] = voteT{H: H, RawHdr: hdr, S: signerT{ID: primitives.MemberId(m.Info.Sender.ID), Mode: "replay", Sig: sig}}
					mk("vote-replaced-by-genuine-"+m.Info.Kind, vs, V, gpp, me, me, gblk)
				}
			}
			// embedded PREPREPARE changed
			pp := gpp
			pp.V = V + 1
			mk("pp-other-view", votes, V, pp, me, me, gblk)
			pp = gpp
			pp.H = H + 1
			mk("pp-other-height", votes, V, pp, me, me, gblk)
			pp = gpp
			pp.I = kit.Instance + 1
			mk("pp-other-instance", votes, V, pp, me, me, gblk)
			mk("pp-sig-garbage", votes, V, gpp, signerT{ID: b, Mode: "garbage"}, me, gblk)
			mk("pp-other-sender", votes, V, gpp, signerT{ID: owned[len(owned)-1], Mode: "valid"}, me, gblk)
			mk("header-sig-garbage", votes, V, gpp, me, signerT{ID: b, Mode: "garbage"}, gblk)
			mk("nil-block", votes, V, gpp, me, me, nil)
			mk("other-block", votes, V, gpp, me, me, kit.NewBlock(1, "OTHER"))
			for _, vw := range []uint64{v + uint64(len(cfg.C)), 1 << 63, ^uint64(0)} {
				vs := append([]voteT{}, votes...)
				for i := range vs {
					if vs[i].S.Mode == "valid" {
						vs[i].V = primitives.View(vw)
					}
				}
				pp := gpp
				pp.V = primitives.View(vw)
				mk("view-jump", vs, primitives.View(vw), pp, me, me, gblk)
			}
		}
	}
	// synthetic certificates: votes and prepared proofs that correct members COULD have produced in a deeper
	// execution (signatures minted as genuine), for this view and for the next view this leader leads. They
	// exercise the selection rule among several proofs of different views, in both listing orders.
	nC := uint64(len(cfg.C))
	for _, tv := range []uint64{v, v + nC} {
		TV := primitives.View(tv)
		synth := func(voter primitives.MemberId, pv uint64, tag string) (voteT, *kit.Block) {
			blk := kit.NewBlock(1, tag)
			leader := primitives.MemberId(r.Leader(pv))
			pr := proofT{Present: true,
				PP:       brefT{protocol.LEAN_HELIX_PREPREPARE, kit.Instance, H, primitives.View(pv), kit.HashOf(blk)},
				P:        brefT{protocol.LEAN_HELIX_PREPARE, kit.Instance, H, primitives.View(pv), kit.HashOf(blk)},
				PPSender: signerT{ID: leader, Mode: "valid"}}
			for _, m := range cfg.C {
				if string(m.ID) != string(leader) && len(pr.PSenders) < len(cfg.C)-1 {
					pr.PSenders = append(pr.PSenders, signerT{ID: m.ID, Mode: "valid"})
				}
			}
			return voteT{T: protocol.LEAN_HELIX_VIEW_CHANGE, I: kit.Instance, H: H, V: TV, Proof: pr, S: signerT{ID: voter, Mode: "valid"}}, blk
		}
		ownTV := voteT{T: protocol.LEAN_HELIX_VIEW_CHANGE, I: kit.Instance, H: H, V: TV, S: me}
		if len(honest) >= 2 && tv >= 2 {
			for pv1 := uint64(0); pv1 < tv && pv1 <= 3; pv1++ {
				for pv2 := uint64(0); pv2 < tv && pv2 <= 3; pv2++ {
					if pv1 == pv2 {
						continue
					}
					v1, b1 := synth(honest[0], pv1, "S1")
					v2, b2 := synth(honest[1], pv2, "S2")
					votes := []voteT{ownTV, v1, v2}
					mk(fmt.Sprintf("synth-proofs-%d-%d-proposes-first", pv1, pv2), votes, TV, brefT{protocol.LEAN_HELIX_PREPREPARE, kit.Instance, H, TV, kit.HashOf(b1)}, me, me, b1)
					mk(fmt.Sprintf("synth-proofs-%d-%d-proposes-second", pv1, pv2), votes, TV, brefT{protocol.LEAN_HELIX_PREPREPARE, kit.Instance, H, TV, kit.HashOf(b2)}, me, me, b2)
					ppT := ppA
					ppT.V = TV
					mk(fmt.Sprintf("synth-proofs-%d-%d-proposes-fresh", pv1, pv2), votes, TV, ppT, me, me, blkA)
				}
			}
		}
	}
	// votes the adversary can mint: own + outsider, padded with garbage-signed honest ids
	for _, mode := range []string{"garbage", "empty"} {
		mk("forged-votes-"+mode, quorumVotes(cfg.C, r, b, V, honest, mode), V, ppA, me, me, blkA)
	}
	out := append([]voteT{own}, voteT{T: protocol.LEAN_HELIX_VIEW_CHANGE, I: kit.Instance, H: H, V: V, S: signerT{ID: []byte("xo"), Mode: "valid"}})
	mk("outsider-votes", append(out, out[1], out[1]), V, ppA, me, me, blkA)
	// own vote carrying each assemblable / corrupted proof together with genuine proof-less votes
	for k := range proofs {
		ps := &proofs[k]
		if ps.view >= v {
			continue
		}
		base := proofT{Present: true,
			PP:       brefT{protocol.LEAN_HELIX_PREPREPARE, kit.Instance, H, primitives.View(ps.view), hexb(ps.hash)},
			P:        brefT{protocol.LEAN_HELIX_PREPARE, kit.Instance, H, primitives.View(ps.view), hexb(ps.hash)},
			PPSender: signerT{ID: ps.ppm.Content().Sender().MemberId(), Mode: "replay", Sig: ps.ppm.Content().Sender().Signature()}}
		for _, p := range ps.preps {
			base.PSenders = append(base.PSenders, signerT{ID: p.Content().Sender().MemberId(), Mode: "replay", Sig: p.Content().Sender().Signature()})
		}
		lock := kit.NewBlock(1, ps.tag)
		for tag, p := range e.proofVariants(base, owned, honest) {
			o := own
			o.Proof = p
			votes := append([]voteT{o}, genuine...)
			pp := brefT{protocol.LEAN_HELIX_PREPREPARE, kit.Instance, H, V, p.PP.Hash}
			mk("ownproof-"+tag, votes, V, pp, me, me, blockFor(tag, lock))
			mk("ownproof-"+tag+"-fresh", votes, V, ppA, me, me, blkA)
		}
	}
}

func seedBytes() []byte { return seedBytesV }

var seedBytesV = randomseed.RandomSeedToBytes(randomseed.CalculateRandomSeed(nil))

// DiffResult = coverage of one differential pass.
type DiffResult struct {
	States, Alphabet int
	Steps            int64
	Influenced       int64
	Found            []Found
	ByTag            map[string]int
}

// Differential runs every message of the alphabet against the first K explored local states.
func (e *Engine) Differential(K int, report map[string]bool) *DiffResult {
	alpha := e.Alphabet()
	res := &DiffResult{Alphabet: len(alpha), ByTag: map[string]int{}}
	for _, id := range alpha {
		res.ByTag[e.msgs[id].Prim]++
	}
	// local states in the order of their first appearance in the (deterministic) global discovery order; the ids
	// themselves depend on how the parallel workers interleaved while interning
	type gq struct {
		g GKey
		q int32
	}
	var gs []gq
	for g, ed := range e.visited {
		gs = append(gs, gq{g, ed.seq})
	}
	sort.Slice(gs, func(i, j int) bool { return gs[i].q < gs[j].q })
	var order []int
	seenL := map[int]bool{}
	for _, x := range gs {
		for s := range e.Honest {
			if id := int(x.g[s]); !seenL[id] {
				seenL[id] = true
				order = append(order, id)
			}
		}
	}
	if K >= len(order) {
		K = len(order)
	} else {
		// the K/2 earliest local states plus K/2 spread evenly (fixed stride) over the later ones, so that deep local
		// states (prepared in a later view, elected, after a NEW_VIEW) meet the mutation alphabet too
		sel := append([]int{}, order[:K/2]...)
		rest := order[K/2:]
		k2 := K - K/2
		for i := 0; i < k2; i++ {
			sel = append(sel, rest[i*len(rest)/k2])
		}
		order = sel
	}
	res.States = K
	var mu sync.Mutex
	seenFP := map[string]bool{}
	var next int64 = -1
	var wg sync.WaitGroup
	for w := 0; w < e.Workers; w++ {
		wg.Add(1)
		go func() {
			defer wg.Done()
			for {
				k := int(atomic.AddInt64(&next, 1))
				if k >= K {
					return
				}
				ls := e.lstate(order[k])
				if e.finished(ls) {
					continue
				}
				var ln *liveNode
				for _, mid := range alpha {
					if ln == nil {
						ln = e.rebuild(ls.Node, ls.Hist)
					}
					m := e.msg(mid)
					n := ln.n
					preAll, preOuts := len(n.Store.All), len(n.Comm.Outs)
					preHV := n.V.S.HeightView().String()
					pp, pc, pl := flags(n)
					obs := n.Step(Event{'d', mid}, m.Raw, m.Info, nil)
					atomic.AddInt64(&res.Steps, 1)
					stored := false
					for _, d := range n.Store.All[preAll:] {
						if len(d) > 2 && d[:2] == "1/" {
							stored = true
						}
					}
					ap, ac, al := flags(n)
					influenced := stored || len(n.Comm.Outs) > preOuts || n.V.S.HeightView().String() != preHV || pp != ap || pc != ac || pl != al || len(obs.Commits) > 0
					viol := obs.Viol
					if dbg := os.Getenv("PMC_DEBUG_PRIM"); dbg != "" && strings.Contains(m.Prim, dbg) {
						fmt.Fprintf(os.Stderr, "DBG %s -> n%d@%s influenced=%v viol=%v :: %s\n", m.Prim, ls.Node, preHV, influenced, viol, m.Info.Desc())
					}
					if influenced {
						atomic.AddInt64(&res.Influenced, 1)
					}
					for _, v := range viol {
						if report != nil && !report[v.Prop] {
							continue
						}
						fp := v.FP()
						if e.Cfg.Skip[fp] || (e.Cfg.Skip[fp+":standalone-PP"] && m.Info.Kind == ref.KPP && m.Info.Hdr.View > 0) {
							continue
						}
						mu.Lock()
						if !seenFP[fp] {
							seenFP[fp] = true
							res.Found = append(res.Found, Found{V: v, Trace: nil, State: GKey{int32(order[k]), int32(mid)}})
						}
						mu.Unlock()
					}
					if influenced || n.Dead != "" {
						ln = nil
					} else if c, _ := e.canon(ln); c != ls.Canon {
						ln = nil // silently changed (e.g. future cache): rebuild for the next mutant
					}
				}
			}
		}()
	}
	wg.Wait()
	return res
}

func flags(n *LNode) (int64, bool, uint64) {
	if t := n.V.Term(); t != nil && t.VerifTermInCommittee() != nil {
		return t.VerifTermInCommittee().VerifFlags()
	}
	return -2, false, 0
}

// AlphabetSample renders a few mutants (for evidence).
func (e *Engine) AlphabetSample() []string {
	var r []string
	step := e.nm/6 + 1
	for id := 0; id < e.nm; id += step {
		if e.msgs[id].Prim != "" {
			r = append(r, e.msgs[id].Prim+": "+e.msgs[id].Info.Desc())
		}
	}
	return r
}

func uint64ToView(v uint64) primitives.View { return primitives.View(v) }

// blockFor: the variant that re-signs the PREPREPARE part for another hash attaches the block of that hash.
func blockFor(tag string, orig interfaces.Block) interfaces.Block {
	if tag == "owned-preprepare-other-hash" {
		return kit.NewBlock(1, "OTHER")
	}
	return orig
}
