package pmc

import (
	"fmt"
	"sort"
	"sync"
	"sync/atomic"

	"verif/kit"
	"verif/ref"

	"github.com/orbs-network/lean-helix-go/services/interfaces"
	"github.com/orbs-network/lean-helix-go/services/messagesfactory"
	"github.com/orbs-network/lean-helix-go/services/randomseed"
	"github.com/orbs-network/lean-helix-go/spec/types/go/primitives"
)

// C05 — bounded liveness after stabilisation. For every explored reachable global state S (left by arbitrary
// asynchrony and Byzantine behaviour), for every timer phase and every post-stabilisation Byzantine strategy
// of the menu, the deterministic TIMELY schedule is run on live real nodes rebuilt from S: every message sent
// after S is delivered (delay 1) before any election timer (base 1000 * 2^view) fires; messages sent before S
// are either all delivered first or all lost. Within a horizon of views some view led by a correct member must
// end in a commit at every still-deciding correct node that accepted its proposal.

type LiveOpt struct {
	Phase    int    // bit i set: honest slot i's timer is about to expire; clear: full timeout remains
	Strategy string // silent | helpful | spoiler | equivocator | prepare-only
	OldLost  bool   // messages sent before S are lost (else delivered first, in canonical order)
	Reverse  bool   // deliver same-time messages in reverse recipient order
}

type LiveResult struct {
	States, Skipped, Extensions int
	Steps                       int64
	Found                       []LiveFound
	MaxViews                    int
}

type LiveFound struct {
	V     Violation
	State GKey
	Opt   LiveOpt
	Log   []string
}

const liveBase = 1000

// LiveAll as maxStates of Liveness: extend every explored state.
const LiveAll = -1 << 31

type flight struct {
	raw *interfaces.ConsensusRawMessage
	to  int
	at  int64
	seq int
}

func (e *Engine) extend(g GKey, opt LiveOpt, keepLog bool) (ok bool, why string, steps int, log []string, maxView uint64) {
	cfg := e.Cfg
	r := e.W.R
	nodes := map[int]*LNode{}
	var clock int64
	deadline := map[int]int64{}
	regs := map[int]int{}
	var queue []flight
	seq := 0
	logf := func(format string, a ...interface{}) {
		if keepLog {
			log = append(log, fmt.Sprintf("t=%d ", clock)+fmt.Sprintf(format, a...))
		}
	}
	// rebuild live nodes
	deciding := map[string]bool{}
	for s, node := range e.Honest {
		ls := e.lstate(int(g[s]))
		ln := e.rebuild(node, ls.Hist)
		nodes[node] = ln.n
		if !ls.Dead && len(ls.Commits) == 0 {
			deciding[string(cfg.C[node].ID)] = true
		}
	}
	if !r.IsQuorum(deciding) {
		return true, "skipped: still-deciding correct members below quorum weight", 0, nil, 0
	}
	startView := uint64(0)
	for _, n := range nodes {
		if v := uint64(n.V.S.View()); v > startView {
			startView = v
		}
	}
	horizon := startView + 2*uint64(len(cfg.C))
	enqueue := func(from int, raw *interfaces.ConsensusRawMessage, to []int) {
		for _, t := range to {
			if _, honest := nodes[t]; honest || e.isByz(t) {
				seq++
				queue = append(queue, flight{raw, t, clock + 1, seq})
			}
		}
	}
	// Byzantine strategy state
	byzF := map[int]*messagesfactory.MessageFactory{}
	for _, b := range cfg.Byz {
		id := cfg.C[b].ID
		byzF[b] = messagesfactory.NewMessageFactory(kit.Instance, &kit.KeyManager{Me: id}, id, randomseed.CalculateRandomSeed(nil))
	}
	done := map[string]bool{}
	votesSeen := map[uint64]map[string]*interfaces.ViewChangeMessage{}
	once := func(k string) bool {
		if done[k] {
			return false
		}
		done[k] = true
		return true
	}
	allHonest := func() []int {
		var r []int
		for i := range nodes {
			r = append(r, i)
		}
		sort.Ints(r)
		return r
	}
	byzReact := func(b int, raw *interfaces.ConsensusRawMessage) {
		if opt.Strategy == "silent" {
			return
		}
		i := ref.Parse(raw)
		if i.Bad || i.Hdr.Height != 1 {
			return
		}
		f := byzF[b]
		H := primitives.BlockHeight(1)
		bid := string(cfg.C[b].ID)
		switch i.Kind {
		case ref.KPP, ref.KNV:
			v, hash := i.Hdr.View, i.Hdr.Hash
			if i.Kind == ref.KNV {
				hash = i.PP.Hash
			}
			if !once(fmt.Sprintf("react-prop-%d-%d-%s", b, v, hash)) {
				return
			}
			switch opt.Strategy {
			case "helpful":
				if r.Leader(v) != bid {
					enqueue(b, f.CreatePrepareMessage(H, primitives.View(v), hexb(hash)).ToConsensusRawMessage(), allHonest())
				}
				enqueue(b, f.CreateCommitMessage(H, primitives.View(v), hexb(hash)).ToConsensusRawMessage(), allHonest())
			case "prepare-only", "spoiler":
				if r.Leader(v) != bid {
					enqueue(b, f.CreatePrepareMessage(H, primitives.View(v), hexb(hash)).ToConsensusRawMessage(), allHonest())
				}
			}
		case ref.KVC:
			v := i.Hdr.View
			if votesSeen[v] == nil {
				votesSeen[v] = map[string]*interfaces.ViewChangeMessage{}
			}
			votesSeen[v][i.Sender.ID] = interfaces.ToConsensusMessage(raw).(*interfaces.ViewChangeMessage)
			leader := e.W.C.Index([]byte(r.Leader(v)))
			if _, honestLeader := nodes[leader]; honestLeader && once(fmt.Sprintf("vote-%d-%d", b, v)) {
				switch opt.Strategy {
				case "helpful":
					enqueue(b, f.CreateViewChangeMessage(H, primitives.View(v), nil).ToConsensusRawMessage(), []int{leader})
				case "spoiler":
					// a vote carrying a proof assembled from everything seen, without / with a wrong block, and a stale vote
					soup := e.soupOfNodes(nodes)
					for _, p := range e.adv.proofs(soup, 1) {
						if p.view < v {
							p := p
							enqueue(b, e.adv.vote(cfg.C[b].ID, 1, v, &p, nil).ToConsensusRawMessage(), []int{leader})
							enqueue(b, e.adv.vote(cfg.C[b].ID, 1, v, &p, kit.NewBlock(1, "WRONG")).ToConsensusRawMessage(), []int{leader})
							break
						}
					}
					if v > 0 {
						enqueue(b, f.CreateViewChangeMessage(H, primitives.View(v-1), nil).ToConsensusRawMessage(), []int{leader})
					}
					enqueue(b, f.CreateViewChangeMessage(H, primitives.View(v), nil).ToConsensusRawMessage(), []int{leader})
				}
			}
			// equivocating leader: once a quorum of genuine votes for a view it leads is visible, two conflicting NEW_VIEWs
			if opt.Strategy == "equivocator" && r.Leader(v) == bid {
				ids := map[string]bool{bid: true}
				var vcms []*interfaces.ViewChangeMessage
				vcms = append(vcms, f.CreateViewChangeMessage(H, primitives.View(v), nil))
				var keys []string
				for id := range votesSeen[v] {
					keys = append(keys, id)
				}
				sort.Strings(keys)
				locked := false
				for _, id := range keys {
					ids[id] = true
					vcms = append(vcms, votesSeen[v][id])
					if votesSeen[v][id].Block() != nil {
						locked = true
					}
				}
				if r.IsQuorum(ids) && !locked && once(fmt.Sprintf("equivocate-%d-%d", b, v)) {
					hs := allHonest()
					for k, tag := range []string{"A", "B"} {
						blk := kit.NewBlock(1, tag)
						ppb := f.CreatePreprepareMessageContentBuilder(H, primitives.View(v), blk, kit.HashOf(blk))
						nv := f.CreateNewViewMessage(H, primitives.View(v), ppb, interfaces.ExtractConfirmationsFromViewChangeMessages(vcms), blk)
						var to []int
						for j, h := range hs {
							if j%2 == k {
								to = append(to, h)
							}
						}
						enqueue(b, nv.ToConsensusRawMessage(), to)
					}
				}
			}
		}
	}
	_ = byzReact
	// "poisoner": right at the stabilisation point every Byzantine member sends, to every correct member, messages that
	// are individually well signed but certify nothing — NEW_VIEWs for views it leads (the next ones and a far one)
	// carrying only its own vote, VIEW_CHANGE / PREPARE / COMMIT for far views — and then stays silent. None of it may
	// keep the correct members from electing their leaders and committing.
	if opt.Strategy == "poisoner" {
		H := primitives.BlockHeight(1)
		n := uint64(len(cfg.C))
		for _, b := range cfg.Byz {
			f := byzF[b]
			var views []uint64
			for v := startView + 1; v <= startView+2*n; v++ {
				if r.Leader(v) == string(cfg.C[b].ID) {
					views = append(views, v)
				}
			}
			views = append(views, uint64(b)+1000*n)
			for _, v := range views {
				for _, tag := range []string{"A"} {
					blk := kit.NewBlock(1, tag)
					ppb := f.CreatePreprepareMessageContentBuilder(H, primitives.View(v), blk, kit.HashOf(blk))
					own := f.CreateViewChangeMessage(H, primitives.View(v), nil)
					nv := f.CreateNewViewMessage(H, primitives.View(v), ppb, interfaces.ExtractConfirmationsFromViewChangeMessages([]*interfaces.ViewChangeMessage{own}), blk)
					enqueue(b, nv.ToConsensusRawMessage(), allHonest())
				}
			}
			far := primitives.View(uint64(b) + 1000*n + 1)
			blk := kit.NewBlock(1, "A")
			enqueue(b, f.CreatePrepareMessage(H, far, kit.HashOf(blk)).ToConsensusRawMessage(), allHonest())
			enqueue(b, f.CreateCommitMessage(H, far, kit.HashOf(blk)).ToConsensusRawMessage(), allHonest())
			for _, h := range allHonest() {
				for k := uint64(1); k <= 2*n; k++ {
					if v := startView + k; r.Leader(v) == string(cfg.C[h].ID) {
						enqueue(b, f.CreateViewChangeMessage(H, primitives.View(v+n), nil).ToConsensusRawMessage(), []int{h}) // a vote for a later view this member leads
					}
				}
			}
		}
	}
	// initial timers and old messages
	for s, node := range e.Honest {
		n := nodes[node]
		_, v, armed := n.Trig.Armed()
		regs[node] = n.Trig.Regs
		if !armed {
			deadline[node] = -1
			continue
		}
		if opt.Phase&(1<<uint(s)) != 0 {
			deadline[node] = clock + 2 + int64(s)
		} else {
			deadline[node] = clock + liveBase<<minU64(v, 40)
		}
	}
	if !opt.OldLost {
		soup := e.soup(g)
		for _, node := range allHonest() {
			ls := e.lstate(int(g[e.slotOf(node)]))
			for _, m := range e.addressed(soup, node, ls) {
				seq++
				queue = append(queue, flight{e.msg(m).Raw, node, clock, seq})
			}
		}
	}
	stopped := ""
	step := func(node int, ev Event, raw *interfaces.ConsensusRawMessage) {
		n := nodes[node]
		var info ref.Info
		if raw != nil {
			info = ref.Parse(raw)
		}
		obs := n.Step(ev, raw, info, nil)
		steps++
		if n.Dead != "" && stopped == "" {
			stopped = fmt.Sprintf("correct member n%d stopped during the timely schedule: %s", node, n.Dead)
		}
		for _, v := range obs.Viol {
			// last clause of C05: a member that accepted the proposal of the view in which the block is committed commits it
			if v.Clause == "commit-quorum-not-acted-upon" && stopped == "" {
				stopped = "correct member does not commit although it accepted the proposal and holds a COMMIT quorum for it: " + v.Detail
			}
		}
		for _, o := range obs.Outs {
			if o.Info.Hdr.Height != 1 {
				continue
			}
			logf("n%d sends %s", node, o.Info.Desc())
			enqueue(node, o.Raw, o.To)
		}
		if n.Trig.Regs != regs[node] {
			regs[node] = n.Trig.Regs
			if _, v, armed := n.Trig.Armed(); armed {
				deadline[node] = clock + liveBase<<minU64(v, 40)
			} else {
				deadline[node] = -1
			}
		}
		if v := uint64(n.V.S.View()); v > maxView && uint64(n.V.S.Height()) == 1 {
			maxView = v
		}
	}
	for iter := 0; iter < 20000; iter++ {
		if stopped != "" { // a correct member that panics or wedges is not "crashed": the library did it
			return false, stopped, steps, log, maxView
		}
		// success?
		allDone := true
		anyCommit := false
		for _, n := range nodes {
			if len(n.Commits) > 0 {
				anyCommit = true
			} else if n.Dead == "" {
				allDone = false
			}
		}
		if allDone && anyCommit {
			return true, "", steps, log, maxView
		}
		if anyCommit {
			// the precondition is evaluated continuously: once a correct member has committed and left the
			// height, the members left behind may hold less than quorum weight; they are then outside the
			// property (they catch up by node sync, C14)
			left := map[string]bool{}
			for i, n := range nodes {
				if len(n.Commits) == 0 && n.Dead == "" {
					left[string(cfg.C[i].ID)] = true
				}
			}
			if !r.IsQuorum(left) {
				return true, "", steps, log, maxView
			}
		}
		if len(queue) > 0 {
			// earliest delivery time first; FIFO (or reversed recipient order) within a time
			sort.SliceStable(queue, func(a, b int) bool {
				if queue[a].at != queue[b].at {
					return queue[a].at < queue[b].at
				}
				if opt.Reverse && queue[a].to != queue[b].to {
					return queue[a].to > queue[b].to
				}
				return queue[a].seq < queue[b].seq
			})
			f := queue[0]
			// a timer that expires before this delivery goes first (only possible for "about to expire" phases)
			fired := false
			for _, node := range allHonest() {
				if d := deadline[node]; d >= 0 && d < f.at && len(nodes[node].Commits) == 0 {
					clock = d
					logf("timeout at n%d (view %d)", node, nodes[node].V.S.View())
					deadline[node] = -1
					step(node, Event{Kind: 't'}, nil)
					fired = true
					break
				}
			}
			if fired {
				continue
			}
			queue = queue[1:]
			if f.at > clock {
				clock = f.at
			}
			if e.isByz(f.to) {
				byzReact(f.to, f.raw)
				continue
			}
			if n := nodes[f.to]; n != nil && len(n.Commits) == 0 && n.Dead == "" {
				step(f.to, Event{Kind: 'd'}, f.raw)
			}
			continue
		}
		// nothing in flight: the earliest timer fires
		best, bd := -1, int64(-1)
		for _, node := range allHonest() {
			if d := deadline[node]; d >= 0 && len(nodes[node].Commits) == 0 && (best < 0 || d < bd) {
				best, bd = node, d
			}
		}
		if best < 0 {
			return false, "no message in flight and no timer armed, but not every deciding correct node has committed", steps, log, maxView
		}
		if uint64(nodes[best].V.S.View()) >= horizon {
			return false, fmt.Sprintf("no commit by view %d (state had max view %d)", horizon, startView), steps, log, maxView
		}
		clock = bd
		logf("timeout at n%d (view %d)", best, nodes[best].V.S.View())
		deadline[best] = -1
		step(best, Event{Kind: 't'}, nil)
	}
	return false, "iteration cap reached", steps, log, maxView
}

func minU64(a, b uint64) uint64 {
	if a < b {
		return a
	}
	return b
}

func (e *Engine) isByz(i int) bool {
	for _, b := range e.Cfg.Byz {
		if b == i {
			return true
		}
	}
	return false
}

func (e *Engine) soupOfNodes(nodes map[int]*LNode) []Sent {
	var r []Sent
	for _, n := range nodes {
		for _, o := range n.Comm.Outs {
			r = append(r, Sent{e.intern(o.Msg, ""), 0})
		}
	}
	return r
}

// Liveness runs the timed extension from the first maxStates explored states (BFS order).
// Liveness extends explored states. maxStates > 0: the maxStates shallowest states; maxStates < 0: -maxStates states
// spread evenly (fixed stride, deterministic) over ALL explored states in (depth, key) order, so that deep states
// are included; maxStates == math.MinInt32: every explored state.
func (e *Engine) Liveness(maxStates int, strategies []string, allPhases bool) *LiveResult {
	type gd struct {
		g GKey
		d int32
		q int32
	}
	var states []gd
	for g, ed := range e.visited {
		states = append(states, gd{g, ed.depth, ed.seq})
	}
	sort.Slice(states, func(i, j int) bool { return states[i].q < states[j].q }) // discovery order = (depth, deterministic merge order)
	if maxStates > 0 && len(states) > maxStates {
		states = states[:maxStates]
	} else if maxStates < 0 && maxStates != LiveAll && len(states) > -maxStates {
		k := -maxStates
		var sel []gd
		for i := 0; i < k; i++ {
			sel = append(sel, states[i*len(states)/k])
		}
		sel[k-1] = states[len(states)-1]
		states = sel
	}
	res := &LiveResult{States: len(states)}
	nh := len(e.Honest)
	var opts []LiveOpt
	phases := []int{0, (1 << uint(nh)) - 1, 1, 1 << uint(nh-1)}
	if allPhases {
		phases = nil
		for p := 0; p < 1<<uint(nh); p++ {
			phases = append(phases, p)
		}
	}
	for _, st := range strategies {
		for _, ph := range phases {
			for _, lost := range []bool{false, true} {
				opts = append(opts, LiveOpt{Phase: ph, Strategy: st, OldLost: lost})
				if allPhases {
					opts = append(opts, LiveOpt{Phase: ph, Strategy: st, OldLost: lost, Reverse: true})
				}
			}
		}
	}
	var mu sync.Mutex
	var next int64 = -1
	var wg sync.WaitGroup
	seen := map[string]bool{}
	var skipped, exts int64
	for w := 0; w < e.Workers; w++ {
		wg.Add(1)
		go func() {
			defer wg.Done()
			for {
				k := int(atomic.AddInt64(&next, 1))
				if k >= len(states) {
					return
				}
				g := states[k].g
				for _, o := range opts {
					ok, why, steps, _, mv := e.extend(g, o, false)
					atomic.AddInt64(&res.Steps, int64(steps))
					if ok && why != "" {
						atomic.AddInt64(&skipped, 1)
						break
					}
					atomic.AddInt64(&exts, 1)
					mu.Lock()
					if int(mv) > res.MaxViews {
						res.MaxViews = int(mv)
					}
					mu.Unlock()
					if !ok {
						fp := "C05:no-commit:" + o.Strategy
						mu.Lock()
						if !seen[fp] && !e.Cfg.Skip[fp] {
							seen[fp] = true
							_, _, _, log, _ := e.extend(g, o, true)
							res.Found = append(res.Found, LiveFound{V: Violation{Prop: "C05", Clause: "no-commit:" + o.Strategy, Detail: why}, State: g, Opt: o, Log: log})
						}
						mu.Unlock()
					}
				}
			}
		}()
	}
	wg.Wait()
	res.Skipped, res.Extensions = int(skipped), int(exts)
	return res
}

// ---------------------------------------------------------------- liveness from a height entered by node sync

// SyncLiveCase = one run of LiveAfterSync.
type SyncLiveCase struct {
	Config string
	Silent []int
	Synced []int // members that enter height 2 by sync; the others commit height 1 themselves
	OK     bool
	Why    string
	Steps  int
	Log    []string
}

// LiveAfterSync (C05 "from any reachable protocol state left by earlier asynchrony", here: a height entered by node
// sync): the correct members of committee c reach height 2 — those in `synced` by UpdateState(block 1), the rest by
// committing height 1 themselves — the members in `silent` never send anything. From then on every message is
// delivered before any timer fires (FIFO). A member that entered by sync may not lead view 0 of height 2, so the
// height can only be decided after election timeouts: every deciding correct member must still commit height 2
// within 2n views.
func LiveAfterSync(name string, c kit.Committee, silent []int, synced []int) SyncLiveCase {
	res := SyncLiveCase{Config: name, Silent: silent, Synced: synced}
	w := NewWorld(c, false, nil)
	isSilent := map[int]bool{}
	for _, s := range silent {
		isSilent[s] = true
	}
	isSynced := map[int]bool{}
	for _, s := range synced {
		isSynced[s] = true
	}
	nodes := map[int]*LNode{}
	var order []int
	for i := range c {
		if !isSilent[i] {
			nodes[i] = NewLNode(w, i)
			order = append(order, i)
		}
	}
	logf := func(format string, a ...interface{}) { res.Log = append(res.Log, fmt.Sprintf(format, a...)) }
	type fl struct {
		raw *interfaces.ConsensusRawMessage
		to  int
	}
	var queue []fl
	var clock int64
	deadline := map[int]int64{}
	regs := map[int]int{}
	target := uint64(1)
	absorb := func(i int, obs StepObs) {
		n := nodes[i]
		for _, o := range obs.Outs {
			for _, t := range o.To {
				if nodes[t] != nil {
					queue = append(queue, fl{o.Raw, t})
				}
			}
		}
		for _, v := range obs.Viol {
			if v.Prop == "C12" {
				res.Why = v.Detail
			}
		}
		if n.Trig.Regs != regs[i] {
			regs[i] = n.Trig.Regs
			if _, v, armed := n.Trig.Armed(); armed {
				deadline[i] = clock + liveBase<<minU64(v, 40)
			} else {
				deadline[i] = -1
			}
		}
		res.Steps++
	}
	committed := func(i int, h uint64) bool {
		for _, cm := range nodes[i].Commits {
			if cm.Height == h {
				return true
			}
		}
		return false
	}
	run := func(horizonViews uint64) (bool, string) {
		for iter := 0; iter < 20000; iter++ {
			all := true
			for _, i := range order {
				if !committed(i, target) && uint64(nodes[i].V.S.Height()) <= target && nodes[i].Dead == "" {
					all = false
				}
			}
			if all {
				return true, ""
			}
			if len(queue) > 0 {
				f := queue[0]
				queue = queue[1:]
				clock++
				absorb(f.to, nodes[f.to].Step(Event{Kind: 'd'}, f.raw, ref.Parse(f.raw), nil))
				continue
			}
			best, bd := -1, int64(-1)
			for _, i := range order {
				if d, ok := deadline[i]; ok && d >= 0 && uint64(nodes[i].V.S.Height()) == target && !committed(i, target) && (best < 0 || d < bd) {
					best, bd = i, d
				}
			}
			if best < 0 {
				return false, fmt.Sprintf("height %d: no message in flight and no election timer armed at any deciding correct member, but not every one of them has committed", target)
			}
			if uint64(nodes[best].V.S.View()) >= horizonViews {
				return false, fmt.Sprintf("height %d not committed by view %d", target, horizonViews)
			}
			clock = bd
			logf("t=%d timeout at n%d (h%d,v%d)", clock, best, nodes[best].V.S.Height(), nodes[best].V.S.View())
			deadline[best] = -1
			absorb(best, nodes[best].Step(Event{Kind: 't'}, nil, ref.Info{}, nil))
		}
		return false, "iteration cap"
	}
	for _, i := range order {
		absorb(i, nodes[i].Start())
	}
	// height 1: the members that are not synced decide it among themselves if they can; whoever commits provides the block
	var blk interfaces.Block
	var proof []byte
	self := map[string]bool{}
	for _, i := range order {
		if !isSynced[i] {
			self[string(c[i].ID)] = true
		}
	}
	if w.R.IsQuorum(self) {
		// deliver height-1 traffic only among the non-synced members
		keep := queue[:0]
		for _, f := range queue {
			if !isSynced[f.to] {
				keep = append(keep, f)
			}
		}
		queue = keep
		saved := order
		var sub []int
		for _, i := range order {
			if !isSynced[i] {
				sub = append(sub, i)
			}
		}
		order = sub
		if ok, why := run(2 * uint64(len(c))); !ok {
			res.Why = "setup: the non-synced members did not commit height 1: " + why
			return res
		}
		order = saved
		for _, i := range sub {
			if len(nodes[i].Blocks) > 0 {
				blk, proof = nodes[i].Blocks[0], nodes[i].Proofs[0]
			}
		}
		// traffic the committers already sent for height 2 stays in flight; messages to synced members were never delivered
	}
	if blk == nil { // nobody could decide height 1 alone: everybody is synced
		blk = kit.NewBlock(1, "SYNCED")
		proof = nil
		queue = nil
		for _, i := range order {
			isSynced[i] = true
		}
	}
	for _, i := range order {
		if isSynced[i] {
			logf("n%d: UpdateState(block 1)", i)
			absorb(i, nodes[i].Step(Event{Kind: 's'}, nil, ref.Info{}, &SyncArg{Block: blk, Proof: proof}))
		}
	}
	target = 2
	res.OK, res.Why = run(2 * uint64(len(c)))
	return res
}
