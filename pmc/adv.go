package pmc

import (
	"context"
	"fmt"
	"sort"
	"strings"
	"sync"

	"verif/kit"
	"verif/ref"

	"github.com/orbs-network/lean-helix-go/services/interfaces"
	"github.com/orbs-network/lean-helix-go/services/messagesfactory"
	"github.com/orbs-network/lean-helix-go/services/preparedmessages"
	"github.com/orbs-network/lean-helix-go/services/randomseed"
	"github.com/orbs-network/lean-helix-go/spec/types/go/primitives"
	"github.com/orbs-network/lean-helix-go/spec/types/go/protocol"
)

// Adv is the Byzantine side: it owns the keys of the Byzantine members (and of one outsider), sees all
// honest traffic, and may replay honest signatures it has seen — never mint them.
//
// Primitive tags (DESIGN.md §4.1):
//
//	PC   own genuine PREPARE / COMMIT for a proposal the target holds            (P2)
//	PP0  PREPREPARE in view 0 for each block of the alphabet (equivocation)       (P1)
//	PPV  stand-alone PREPREPARE in a view above 0                                  (P5)
//	VC   VIEW_CHANGE to an honest leader: no proof / assembled proof / proof without block / wrong block (P3)
//	NV   NEW_VIEW in a view it leads from genuine votes + own votes                (P4)
//	NVF  NEW_VIEW with votes attributed to honest members under garbage signatures (P4 variant)
//	NVW  NEW_VIEW ignoring the lock (fresh block although a vote carries a proof)  (P4 variant)
//	NVH  NEW_VIEW whose embedded PREPREPARE hash differs from the proven/attached block (P4 variant)
//	NC   the adversary's own PREPARE / COMMIT / PREPREPARE(view 0) / VIEW_CHANGE, genuinely signed over a NON-CANONICAL
//	     encoding of the signed header (the canonical bytes followed by padding): every field reads the same
//	CS   own genuinely signed COMMIT carrying ANOTHER member's random-seed share (replayed from that member's COMMIT)
//	PX   own genuine PREPARE / COMMIT for a hash nobody proposed, in the target's current view
//	NVO  NEW_VIEW whose votes only reach quorum if the vote of an OUTSIDER (valid key, not a member) is counted
//	NVP  NEW_VIEW in which a genuine PREPARE / COMMIT of a correct member for this view stands in the place of that
//	     member's vote (same wire layout; the signature is the member's own), the other votes genuine
//	NVT  NEW_VIEW whose embedded proposal is genuinely signed but declares another message type (COMMIT) in its header
//	NVB  NEW_VIEW valid in every signed part whose attached (unsigned) block body is another block (P4 variant)
//	OUT  outsider-signed PREPARE / COMMIT / VIEW_CHANGE                            (P7)
//	XT   cross-type replay: an honest PREPARE header+signature wrapped as COMMIT    (P6)
//	NVE  NEW_VIEW "locked" on a proof for the EMPTY hash assembled from proof-less VIEW_CHANGE signatures of an
//	     earlier view the adversary led (a proof-less vote header and a block ref with an empty hash may be the same
//	     bytes), proposing an arbitrary block; VCE: the same forged proof inside a vote to a correct leader (P6)
type Adv struct {
	e     *Engine
	byz   []primitives.MemberId
	out   primitives.MemberId
	fac   map[string]*messagesfactory.MessageFactory
	cache map[string][]int
	mu    sync.Mutex
}

func newAdv(e *Engine) *Adv {
	a := &Adv{e: e, fac: map[string]*messagesfactory.MessageFactory{}, cache: map[string][]int{}}
	seed := randomseed.CalculateRandomSeed(nil)
	for _, b := range e.Cfg.Byz {
		id := e.Cfg.C[b].ID
		a.byz = append(a.byz, id)
		a.fac[string(id)] = nil
		_ = seed
	}
	if e.Cfg.Outsider {
		a.out = []byte("xo")
		a.fac["xo"] = nil
	}
	return a
}

// facOf: a FRESH message factory of the library for every message the adversary builds with its own keys (the
// factory is code under test: one instance is never shared between calls or between the parallel workers).
func (a *Adv) facOf(id string) *messagesfactory.MessageFactory {
	if _, ok := a.fac[id]; !ok {
		panic("adversary does not own the key of " + id)
	}
	mid := primitives.MemberId(id)
	return messagesfactory.NewMessageFactory(kit.Instance, &kit.KeyManager{Me: mid}, mid, randomseed.CalculateRandomSeed(nil))
}

func (a *Adv) soupDependent() bool {
	if a.e.Cfg.Eager {
		return true
	}
	for _, p := range []string{"XT", "CS", "VC", "VCT", "NV", "NVW", "NVH", "NVN", "NVM", "NVE", "NVB", "NVT", "NVO", "NVP"} {
		if a.on(p) {
			return true
		}
	}
	return false
}

func (a *Adv) on(p string) bool { return a.e.Cfg.Prims[p] }

func (a *Adv) blockFor(h uint64, tag string) *kit.Block { return kit.NewBlock(h, tag) }

func hexb(s string) []byte {
	var b []byte
	fmt.Sscanf(s, "%x", &b)
	return b
}

type proofSrc struct {
	view  uint64
	hash  string
	tag   string
	ppm   *interfaces.PreprepareMessage
	preps []*interfaces.PrepareMessage
}

// assemble every prepared proof the adversary can build for height h from signatures in the soup
// plus its own: PREPREPARE of leader(v) (stand-alone or embedded in a NEW_VIEW) + PREPAREs reaching quorum.
func (a *Adv) proofs(soup []Sent, h uint64) []proofSrc {
	e := a.e
	r := e.W.R
	type key struct {
		v    uint64
		hash string
	}
	pps := map[key]*interfaces.PreprepareMessage{}
	tags := map[key]string{}
	preps := map[key]map[string]*interfaces.PrepareMessage{}
	for _, s := range soup {
		m := e.msg(int(s.Msg))
		i := m.Info
		if i.Hdr.Height != h {
			continue
		}
		switch i.Kind {
		case ref.KPP:
			k := key{i.Hdr.View, i.Hdr.Hash}
			pps[k] = interfaces.ToConsensusMessage(m.Raw).(*interfaces.PreprepareMessage)
			tags[k] = i.BlockTag
		case ref.KNV:
			k := key{i.PP.View, i.PP.Hash}
			nv := interfaces.ToConsensusMessage(m.Raw).(*interfaces.NewViewMessage)
			pps[k] = interfaces.NewPreprepareMessage(nv.Content().Message(), nv.Block())
			tags[k] = i.BlockTag
		case ref.KP:
			k := key{i.Hdr.View, i.Hdr.Hash}
			if preps[k] == nil {
				preps[k] = map[string]*interfaces.PrepareMessage{}
			}
			preps[k][i.Sender.ID] = interfaces.ToConsensusMessage(m.Raw).(*interfaces.PrepareMessage)
		}
	}
	// own proposals for views it leads: any alphabet block
	for v := uint64(0); v <= e.Cfg.MaxView; v++ {
		for _, b := range a.byz {
			if r.Leader(v) != string(b) {
				continue
			}
			for _, t := range e.Cfg.Alphabet {
				blk := a.blockFor(h, t)
				k := key{v, fmt.Sprintf("%x", []byte(kit.HashOf(blk)))}
				if pps[k] == nil {
					pps[k] = a.facOf(string(b)).CreatePreprepareMessage(primitives.BlockHeight(h), primitives.View(v), blk, kit.HashOf(blk))
					tags[k] = t
				}
			}
		}
	}
	var res []proofSrc
	for k, pp := range pps {
		ids := map[string]bool{r.Leader(k.v): true}
		var ps []*interfaces.PrepareMessage
		for id, p := range preps[k] {
			if id != r.Leader(k.v) {
				ids[id] = true
				ps = append(ps, p)
			}
		}
		for _, b := range a.byz {
			if string(b) != r.Leader(k.v) && !ids[string(b)] {
				ids[string(b)] = true
				ps = append(ps, a.facOf(string(b)).CreatePrepareMessage(primitives.BlockHeight(h), primitives.View(k.v), hexb(k.hash)))
			}
		}
		if !r.IsQuorum(ids) || len(ps) == 0 {
			continue
		}
		sort.Slice(ps, func(i, j int) bool { return string(ps[i].SenderMemberId()) < string(ps[j].SenderMemberId()) })
		res = append(res, proofSrc{k.v, k.hash, tags[k], pp, ps})
	}
	sort.Slice(res, func(i, j int) bool {
		if res[i].view != res[j].view {
			return res[i].view < res[j].view
		}
		return res[i].hash < res[j].hash
	})
	return res
}

func (a *Adv) vote(b primitives.MemberId, h, v uint64, p *proofSrc, block interfaces.Block) *interfaces.ViewChangeMessage {
	f := a.facOf(string(b))
	var builder *protocol.ViewChangeMessageContentBuilder
	if p == nil {
		builder = f.CreateViewChangeMessageContentBuilder(primitives.BlockHeight(h), primitives.View(v), nil)
	} else {
		builder = f.CreateViewChangeMessageContentBuilder(primitives.BlockHeight(h), primitives.View(v), &preparedmessages.PreparedMessages{PreprepareMessage: p.ppm, PrepareMessages: p.preps})
	}
	return interfaces.NewViewChangeMessage(builder.Build(), block)
}

// voteOddType: like vote, for a proof whose proven view the adversary itself led: the PREPREPARE ref declares the
// message type COMMIT and is signed (genuinely, by its leader) over exactly those bytes; the PREPARE part is the
// genuine one. Nothing on the receive path constrains the type inside a proof, so correct nodes accept the vote;
// whatever they build from it later (NEW_VIEW) must still be acceptable to their peers (C11).
func (a *Adv) voteOddType(b primitives.MemberId, h, v uint64, p *proofSrc, block interfaces.Block) *interfaces.ViewChangeMessage {
	f := a.facOf(string(b))
	builder := f.CreateViewChangeMessageContentBuilder(primitives.BlockHeight(h), primitives.View(v), &preparedmessages.PreparedMessages{PreprepareMessage: p.ppm, PrepareMessages: p.preps})
	pr := builder.SignedHeader.PreparedProof
	pr.PreprepareBlockRef.MessageType = protocol.LEAN_HELIX_COMMIT
	leader := primitives.MemberId(pr.PreprepareSender.MemberId)
	pr.PreprepareSender.Signature = primitives.Signature((&kit.KeyManager{Me: leader}).SignConsensusMessage(context.Background(), primitives.BlockHeight(h), pr.PreprepareBlockRef.Build().Raw()))
	builder.Sender.Signature = primitives.Signature((&kit.KeyManager{Me: b}).SignConsensusMessage(context.Background(), primitives.BlockHeight(h), builder.SignedHeader.Build().Raw()))
	return interfaces.NewViewChangeMessage(builder.Build(), block)
}

// menu returns the message ids the adversary offers to the target in this global state.
func (a *Adv) menu(soup []Sent, t *LState) []int {
	if len(a.byz) == 0 && len(a.out) == 0 {
		return nil
	}
	var kb strings.Builder
	fmt.Fprintf(&kb, "%d|%d|%d|%v|", t.Node, t.Height, t.View, t.Props)
	if a.soupDependent() {
		ids := make([]int, len(soup))
		for i, s := range soup {
			ids[i] = s.Msg
		}
		sort.Ints(ids)
		var buf [4]byte
		for _, id := range ids {
			buf[0], buf[1], buf[2], buf[3] = byte(id), byte(id>>8), byte(id>>16), byte(id>>24)
			kb.Write(buf[:])
		}
	}
	ck := kb.String()
	a.mu.Lock()
	r, ok := a.cache[ck]
	a.mu.Unlock()
	if ok {
		return r
	}
	r = a.build(soup, t)
	a.mu.Lock()
	a.cache[ck] = r
	a.mu.Unlock()
	return r
}

func (a *Adv) build(soup []Sent, t *LState) []int {
	e := a.e
	r := e.W.R
	h := t.Height
	H := primitives.BlockHeight(h)
	me := string(e.Cfg.C[t.Node].ID)
	var res []int
	seen := map[int]bool{}
	add := func(m interfaces.ConsensusMessage, prim string) {
		id := e.intern(m.ToConsensusRawMessage(), prim)
		if !seen[id] {
			seen[id] = true
			res = append(res, id)
		}
	}
	addRaw := func(raw *interfaces.ConsensusRawMessage, prim string) {
		id := e.intern(raw, prim)
		if !seen[id] {
			seen[id] = true
			res = append(res, id)
		}
	}
	signers := append([]primitives.MemberId{}, a.byz...)
	// ---- PC / OUT: PREPARE and COMMIT for proposals the target holds (lazy, reduction R1) — in eager
	// configurations also for every proposal visible anywhere (soup, alphabet), whether or not the target holds it
	props := append([][2]string{}, t.Props...)
	if e.Cfg.Eager {
		have := map[[2]string]bool{}
		for _, p := range props {
			have[p] = true
		}
		addP := func(v uint64, hash string) {
			k := [2]string{fmt.Sprint(v), hash}
			if !have[k] && v <= e.Cfg.MaxView {
				have[k] = true
				props = append(props, k)
			}
		}
		for _, s := range soup {
			i := e.msg(int(s.Msg)).Info
			if i.Hdr.Height != h {
				continue
			}
			if i.Kind == ref.KPP {
				addP(i.Hdr.View, i.Hdr.Hash)
			} else if i.Kind == ref.KNV {
				addP(i.PP.View, i.PP.Hash)
			}
		}
		for v := uint64(0); v <= e.Cfg.MaxView; v++ {
			for _, b := range a.byz {
				if r.Leader(v) == string(b) {
					for _, tag := range e.Cfg.Alphabet {
						addP(v, fmt.Sprintf("%x", []byte(kit.HashOf(a.blockFor(h, tag)))))
					}
				}
			}
		}
		sort.Slice(props, func(i, j int) bool { return props[i][0]+props[i][1] < props[j][0]+props[j][1] })
	}
	for _, p := range props {
		var v uint64
		fmt.Sscanf(p[0], "%d", &v)
		hash := hexb(p[1])
		if a.on("PC") {
			for _, b := range signers {
				if r.Leader(v) != string(b) && v >= t.View {
					add(a.facOf(string(b)).CreatePrepareMessage(H, primitives.View(v), hash), "PC")
				}
				add(a.facOf(string(b)).CreateCommitMessage(H, primitives.View(v), hash), "PC")
			}
		}
		if a.on("NC") {
			for _, b := range signers {
				share := kit.Share(b, H, randomseed.RandomSeedToBytes(randomseed.CalculateRandomSeed(nil)))
				for _, pad := range [][]byte{ncPad, ncAlign} {
					if r.Leader(v) != string(b) && v >= t.View {
						addRaw(mkBlockRefMsgPad(ref.KP, brefT{T: protocol.LEAN_HELIX_PREPARE, I: kit.Instance, H: H, V: primitives.View(v), Hash: hash}, signerT{ID: b, Mode: "valid"}, nil, nil, pad), "NC")
					}
					addRaw(mkBlockRefMsgPad(ref.KC, brefT{T: protocol.LEAN_HELIX_COMMIT, I: kit.Instance, H: H, V: primitives.View(v), Hash: hash}, signerT{ID: b, Mode: "valid"}, share, nil, pad), "NC")
				}
			}
		}
		if a.on("CS") {
			shares := map[string][]byte{}
			for _, sm := range soup {
				if i := e.msg(int(sm.Msg)).Info; i.Kind == ref.KC && i.Hdr.Height == h && !a.owns(primitives.MemberId(i.Sender.ID)) {
					shares[i.Sender.ID] = i.Share
				}
			}
			var owners []string
			for id := range shares {
				owners = append(owners, id)
			}
			sort.Strings(owners)
			for _, b := range signers {
				for _, id := range owners {
					addRaw(mkBlockRefMsg(ref.KC, brefT{protocol.LEAN_HELIX_COMMIT, kit.Instance, H, primitives.View(v), hash}, signerT{ID: b, Mode: "valid"}, shares[id], nil), "CS")
				}
			}
		}
		if a.on("OUT") && a.out != nil {
			if v >= t.View {
				add(a.facOf("xo").CreatePrepareMessage(H, primitives.View(v), hash), "OUT")
			}
			add(a.facOf("xo").CreateCommitMessage(H, primitives.View(v), hash), "OUT")
		}
		if a.on("XT") {
			// an honest PREPARE for (v,hash) whose sender's share is known from any of its COMMITs
			shares := map[string][]byte{}
			for _, s := range soup {
				if i := e.msg(int(s.Msg)).Info; i.Kind == ref.KC && i.Hdr.Height == h {
					shares[i.Sender.ID] = i.Share
				}
			}
			for _, s := range soup {
				m := e.msg(int(s.Msg))
				i := m.Info
				if i.Kind == ref.KP && i.Hdr.Height == h && i.Hdr.View == v && i.Hdr.Hash == p[1] && i.Sender.ID != me && shares[i.Sender.ID] != nil {
					pm := interfaces.ToConsensusMessage(m.Raw).(*interfaces.PrepareMessage)
					cb := &protocol.CommitContentBuilder{
						SignedHeader: &protocol.BlockRefBuilder{MessageType: protocol.LEAN_HELIX_PREPARE, InstanceId: kit.Instance, BlockHeight: H, View: primitives.View(v), BlockHash: hash},
						Sender:       &protocol.SenderSignatureBuilder{MemberId: pm.Content().Sender().MemberId(), Signature: pm.Content().Sender().Signature()},
						Share:        shares[i.Sender.ID],
					}
					add(interfaces.NewCommitMessage(cb.Build()), "XT")
				}
			}
		}
	}
	// ---- PP0 / PPV
	for v := uint64(0); v <= e.Cfg.MaxView; v++ {
		if !e.Cfg.Eager && v != t.View {
			continue
		}
		for _, b := range a.byz {
			if r.Leader(v) != string(b) {
				continue
			}
			prim := "PP0"
			if v > 0 {
				prim = "PPV"
			}
			if !a.on(prim) {
				continue
			}
			for _, tag := range e.Cfg.Alphabet {
				blk := a.blockFor(h, tag)
				add(a.facOf(string(b)).CreatePreprepareMessage(H, primitives.View(v), blk, kit.HashOf(blk)), prim)
			}
		}
	}
	if a.on("PX") {
		other := kit.HashOf(a.blockFor(h, "OTHER"))
		for _, b := range a.byz {
			if r.Leader(t.View) != string(b) {
				add(a.facOf(string(b)).CreatePrepareMessage(H, primitives.View(t.View), other), "PX")
			}
			add(a.facOf(string(b)).CreateCommitMessage(H, primitives.View(t.View), other), "PX")
		}
	}
	if a.on("NC") {
		// PREPREPARE of view 0 by its Byzantine leader over a padded header; proof-less vote over a padded header to the target as leader
		for _, b := range a.byz {
			if r.Leader(0) == string(b) && (e.Cfg.Eager || t.View == 0) {
				for _, tag := range e.Cfg.Alphabet {
					blk := a.blockFor(h, tag)
					addRaw(mkBlockRefMsgPad(ref.KPP, brefT{T: protocol.LEAN_HELIX_PREPREPARE, I: kit.Instance, H: H, V: 0, Hash: kit.HashOf(blk)}, signerT{ID: b, Mode: "valid"}, nil, blk, ncPad), "NC")
					addRaw(mkBlockRefMsgPad(ref.KPP, brefT{T: protocol.LEAN_HELIX_PREPREPARE, I: kit.Instance, H: H, V: 0, Hash: kit.HashOf(blk)}, signerT{ID: b, Mode: "valid"}, nil, blk, ncAlign), "NC")
				}
			}
			for v := uint64(1); v <= e.Cfg.MaxView; v++ {
				if r.Leader(v) == me && (e.Cfg.Eager || v >= t.View) {
					addRaw(mkVC(voteT{T: protocol.LEAN_HELIX_VIEW_CHANGE, I: kit.Instance, H: H, V: primitives.View(v), S: signerT{ID: b, Mode: "valid"}, Pad: ncPad}, nil), "NC")
					addRaw(mkVC(voteT{T: protocol.LEAN_HELIX_VIEW_CHANGE, I: kit.Instance, H: H, V: primitives.View(v), S: signerT{ID: b, Mode: "valid"}, Pad: ncAlign}, nil), "NC")
				}
			}
		}
	}
	var proofs []proofSrc
	if a.on("VC") || a.on("VCT") || a.on("NV") || a.on("NVW") || a.on("NVH") || a.on("NVN") || a.on("NVM") || a.on("NVB") {
		proofs = a.proofs(soup, h)
	}
	// ---- VCE: vote to the target as leader carrying the empty-hash proof forged from votes of an earlier view
	if a.on("NVE") {
		for v := uint64(2); v <= e.Cfg.MaxView; v++ {
			if r.Leader(v) != me || (!e.Cfg.Eager && v < t.View) {
				continue
			}
			for _, b := range a.byz {
				for _, pr := range a.emptyHashProofs(soup, h, v) {
					for _, tag := range e.Cfg.Alphabet {
						vt := voteT{T: protocol.LEAN_HELIX_VIEW_CHANGE, I: kit.Instance, H: H, V: primitives.View(v), Proof: pr, S: signerT{ID: b, Mode: "valid"}}
						addRaw(mkVC(vt, a.blockFor(h, tag)), "VCE")
					}
				}
			}
		}
	}
	// ---- VC to the target as leader
	if a.on("VC") || a.on("VCT") || (a.on("OUT") && a.out != nil) {
		for v := uint64(1); v <= e.Cfg.MaxView; v++ {
			if r.Leader(v) != me || (!e.Cfg.Eager && v < t.View) {
				continue
			}
			vs := []primitives.MemberId{}
			if a.on("VC") {
				vs = append(vs, a.byz...)
			}
			if a.on("VCT") {
				for _, b := range a.byz {
					for k := range proofs {
						if p := &proofs[k]; p.view < v && a.owns(primitives.MemberId(r.Leader(p.view))) {
							add(a.voteOddType(b, h, v, p, a.blockFor(h, p.tag)), "VCT")
						}
					}
				}
			}
			for _, b := range vs {
				add(a.vote(b, h, v, nil, nil), "VC")
				for k := range proofs {
					p := &proofs[k]
					if p.view >= v {
						continue
					}
					add(a.vote(b, h, v, p, a.blockFor(h, p.tag)), "VC")
					add(a.vote(b, h, v, p, nil), "VCnb")
					add(a.vote(b, h, v, p, a.blockFor(h, "WRONG")), "VCwb")
				}
				add(a.vote(b, h, v, nil, a.blockFor(h, e.Cfg.Alphabet[0])), "VCbo")
			}
			if a.on("OUT") && a.out != nil {
				add(a.vote(a.out, h, v, nil, nil), "OUT")
			}
		}
	}
	// ---- NEW_VIEW in views the adversary leads
	if a.on("NV") || a.on("NVF") || a.on("NVW") || a.on("NVH") || a.on("NVN") || a.on("NVM") || a.on("NVE") || a.on("NVB") || a.on("NVT") || a.on("NVO") || a.on("NVP") {
		for v := uint64(1); v <= e.Cfg.MaxView; v++ {
			if v < t.View {
				continue
			}
			for _, b := range a.byz {
				if r.Leader(v) != string(b) {
					continue
				}
				a.newViews(soup, t, b, v, proofs, add, addRaw)
			}
		}
	}
	return res
}

func (a *Adv) newViews(soup []Sent, t *LState, b primitives.MemberId, v uint64, proofs []proofSrc, add func(interfaces.ConsensusMessage, string), addRaw func(*interfaces.ConsensusRawMessage, string)) {
	e := a.e
	r := e.W.R
	h := t.Height
	H, V := primitives.BlockHeight(h), primitives.View(v)
	f := a.facOf(string(b))
	type cand struct {
		vcm  *interfaces.ViewChangeMessage
		id   string
		pv   int64
		hash string
		tag  string
	}
	var pool []cand
	for _, s := range soup {
		m := e.msg(int(s.Msg))
		i := m.Info
		if i.Kind == ref.KVC && i.Hdr.Height == h && i.Hdr.View == v {
			c := cand{vcm: interfaces.ToConsensusMessage(m.Raw).(*interfaces.ViewChangeMessage), id: i.Sender.ID, pv: -1}
			if i.Proof.Present {
				c.pv, c.hash, c.tag = int64(i.Proof.PP.View), i.Proof.PP.Hash, i.BlockTag
			}
			pool = append(pool, c)
		}
	}
	sort.Slice(pool, func(i, j int) bool { return pool[i].id < pool[j].id })
	// own vote variants
	own := []cand{{vcm: a.vote(b, h, v, nil, nil), id: string(b), pv: -1}}
	for k := range proofs {
		p := &proofs[k]
		if p.view < v {
			own = append(own, cand{vcm: a.vote(b, h, v, p, a.blockFor(h, p.tag)), id: string(b), pv: int64(p.view), hash: p.hash, tag: p.tag})
		}
	}
	mk := func(votes []cand, blk *kit.Block, hash primitives.BlockHash, prim string) {
		vcms := make([]*interfaces.ViewChangeMessage, len(votes))
		for i, c := range votes {
			vcms[i] = c.vcm
		}
		ppb := f.CreatePreprepareMessageContentBuilder(H, V, blk, hash)
		nv := f.CreateNewViewMessage(H, V, ppb, interfaces.ExtractConfirmationsFromViewChangeMessages(vcms), blk)
		add(nv, prim)
	}
	n := len(pool)
	for maskv := 0; maskv < 1<<uint(n); maskv++ {
		for _, o := range own {
			votes := []cand{o}
			ids := map[string]bool{o.id: true}
			for i := 0; i < n; i++ {
				if maskv&(1<<uint(i)) != 0 {
					votes = append(votes, pool[i])
					ids[pool[i].id] = true
				}
			}
			if !r.IsQuorum(ids) {
				continue
			}
			best := cand{pv: -1}
			for _, c := range votes {
				if c.pv > best.pv {
					best = c
				}
			}
			if best.pv >= 0 {
				lb := a.blockFor(h, best.tag)
				if a.on("NV") {
					mk(votes, lb, kit.HashOf(lb), "NV")
				}
				if a.on("NVW") {
					x := a.blockFor(h, e.Cfg.Alphabet[0])
					mk(votes, x, kit.HashOf(x), "NVW")
				}
				if a.on("NVH") {
					x := a.blockFor(h, e.Cfg.Alphabet[0])
					mk(votes, lb, kit.HashOf(x), "NVH")
				}
				if a.on("NVB") && maskv == 1<<uint(n)-1 { // the certified hash, every signature genuine, another block body attached (all known votes)
					for _, tag := range append(append([]string{}, e.Cfg.Alphabet...), "SUBST") {
						if x := a.blockFor(h, tag); tag != best.tag {
							mk(votes, x, kit.HashOf(lb), "NVB")
						}
					}
				}
			} else {
				if a.on("NVB") && maskv == 1<<uint(n)-1 {
					x, y := a.blockFor(h, e.Cfg.Alphabet[0]), a.blockFor(h, "SUBST")
					mk(votes, y, kit.HashOf(x), "NVB")
				}
				if a.on("NVN") { // a proposal without its block (NVN)
					x := a.blockFor(h, e.Cfg.Alphabet[0])
					vcms := make([]*interfaces.ViewChangeMessage, len(votes))
					for i, c := range votes {
						vcms[i] = c.vcm
					}
					ppb := f.CreatePreprepareMessageContentBuilder(H, V, x, kit.HashOf(x))
					add(f.CreateNewViewMessage(H, V, ppb, interfaces.ExtractConfirmationsFromViewChangeMessages(vcms), nil), "NVN")
				}
				if a.on("NV") {
					for _, tag := range e.Cfg.Alphabet {
						x := a.blockFor(h, tag)
						mk(votes, x, kit.HashOf(x), "NV")
					}
				}
				if a.on("NVH") {
					x, y := a.blockFor(h, e.Cfg.Alphabet[0]), a.blockFor(h, "OTHER")
					mk(votes, x, kit.HashOf(y), "NVH")
				}
			}
		}
	}
	if a.on("NVM") {
		// mixed proof: the adversary led an earlier view pv, re-signs the PREPREPARE part for block Z (alphabet[0])
		// and keeps the genuine PREPARE part of what correct members prepared in pv; proposes Z "locked" on it
		z := a.blockFor(h, e.Cfg.Alphabet[0])
		for k := range proofs {
			p := &proofs[k]
			if p.view >= v || r.Leader(p.view) != string(p.ppm.Content().Sender().MemberId()) || !a.owns(p.ppm.Content().Sender().MemberId()) || p.hash == fmt.Sprintf("%x", []byte(kit.HashOf(z))) {
				continue
			}
			pr := proofT{Present: true,
				PP:       brefT{protocol.LEAN_HELIX_PREPREPARE, kit.Instance, H, primitives.View(p.view), kit.HashOf(z)},
				P:        brefT{protocol.LEAN_HELIX_PREPARE, kit.Instance, H, primitives.View(p.view), hexb(p.hash)},
				PPSender: signerT{ID: p.ppm.Content().Sender().MemberId(), Mode: "valid"}}
			for _, pm := range p.preps {
				pr.PSenders = append(pr.PSenders, signerT{ID: pm.Content().Sender().MemberId(), Mode: "replay", Sig: pm.Content().Sender().Signature()})
			}
			me := signerT{ID: b, Mode: "valid"}
			votes := []voteT{{T: protocol.LEAN_HELIX_VIEW_CHANGE, I: kit.Instance, H: H, V: V, Proof: pr, S: me}}
			ids := map[string]bool{string(b): true}
			for _, c := range pool {
				if c.pv < 0 && !ids[c.id] {
					ids[c.id] = true
					votes = append(votes, voteT{T: protocol.LEAN_HELIX_VIEW_CHANGE, I: kit.Instance, H: H, V: V, S: signerT{ID: primitives.MemberId(c.id), Mode: "replay", Sig: c.vcm.Content().Sender().Signature()}})
				}
			}
			if r.IsQuorum(ids) {
				addRaw(mkNV(nvT{T: protocol.LEAN_HELIX_NEW_VIEW, I: kit.Instance, H: H, V: V, Votes: votes, S: me,
					PP: brefT{protocol.LEAN_HELIX_PREPREPARE, kit.Instance, H, V, kit.HashOf(z)}, PPS: me}, z), "NVM")
			}
		}
	}
	if a.on("NVO") && a.out != nil {
		// own vote + every subset of the genuine proof-less votes that stays BELOW quorum weight + the outsider's vote
		// (genuinely signed with the outsider's own key): a quorum only for a receiver that gives the outsider weight
		me := signerT{ID: b, Mode: "valid"}
		outV := voteT{T: protocol.LEAN_HELIX_VIEW_CHANGE, I: kit.Instance, H: H, V: V, S: signerT{ID: a.out, Mode: "valid"}}
		var plain []cand
		for _, c := range pool {
			if c.pv < 0 {
				plain = append(plain, c)
			}
		}
		for mask := 0; mask < 1<<uint(len(plain)); mask++ {
			votes := []voteT{{T: protocol.LEAN_HELIX_VIEW_CHANGE, I: kit.Instance, H: H, V: V, S: me}}
			ids := map[string]bool{string(b): true}
			for i, c := range plain {
				if mask&(1<<uint(i)) != 0 && !ids[c.id] {
					ids[c.id] = true
					votes = append(votes, voteT{T: protocol.LEAN_HELIX_VIEW_CHANGE, I: kit.Instance, H: H, V: V, S: signerT{ID: primitives.MemberId(c.id), Mode: "replay", Sig: c.vcm.Content().Sender().Signature()}})
				}
			}
			if r.IsQuorum(ids) || len(votes)+1 < 3 {
				continue
			}
			votes = append(votes, outV)
			for _, tag := range e.Cfg.Alphabet {
				x := a.blockFor(h, tag)
				addRaw(mkNV(nvT{T: protocol.LEAN_HELIX_NEW_VIEW, I: kit.Instance, H: H, V: V, Votes: votes, S: me,
					PP: brefT{protocol.LEAN_HELIX_PREPREPARE, kit.Instance, H, V, kit.HashOf(x)}, PPS: me}, x), "NVO")
			}
		}
	}
	if a.on("NVP") {
		// what the leader can do once a correct member has accepted its first NEW_VIEW for v and answered with PREPARE
		// (or COMMIT): own vote (every variant) + a subset of the genuine votes of OTHER members + that PREPARE in the
		// place of the member's vote. The quorum is only reached if the PREPARE is counted as a vote.
		type rep struct {
			id       string
			hdr, sig []byte
		}
		var reps []rep
		seenRep := map[string]bool{}
		for _, s := range soup {
			m := e.msg(int(s.Msg))
			i := m.Info
			if (i.Kind != ref.KP && i.Kind != ref.KC) || i.Hdr.Height != h || i.Hdr.View != v || a.owns(primitives.MemberId(i.Sender.ID)) || seenRep[i.Kind+i.Sender.ID] {
				continue
			}
			seenRep[i.Kind+i.Sender.ID] = true
			switch pm := interfaces.ToConsensusMessage(m.Raw).(type) {
			case *interfaces.PrepareMessage:
				reps = append(reps, rep{i.Sender.ID, pm.Content().SignedHeader().Raw(), pm.Content().Sender().Signature()})
			case *interfaces.CommitMessage:
				reps = append(reps, rep{i.Sender.ID, pm.Content().SignedHeader().Raw(), pm.Content().Sender().Signature()})
			}
		}
		me := signerT{ID: b, Mode: "valid"}
		for _, rp := range reps {
			var others []cand
			for _, c := range pool {
				if c.id != rp.id {
					others = append(others, c)
				}
			}
			for mask := 0; mask < 1<<uint(len(others)); mask++ {
				for _, o := range own {
					confs := interfaces.ExtractConfirmationsFromViewChangeMessages([]*interfaces.ViewChangeMessage{o.vcm})
					ids := map[string]bool{string(b): true}
					best := o
					for i, c := range others {
						if mask&(1<<uint(i)) != 0 && !ids[c.id] {
							ids[c.id] = true
							confs = append(confs, interfaces.ExtractConfirmationsFromViewChangeMessages([]*interfaces.ViewChangeMessage{c.vcm})...)
							if c.pv > best.pv {
								best = c
							}
						}
					}
					if r.IsQuorum(ids) { // a quorum of real votes: the plain NV primitive
						continue
					}
					ids[rp.id] = true
					if !r.IsQuorum(ids) {
						continue
					}
					confs = append(confs, voteT{H: H, RawHdr: rp.hdr, S: signerT{ID: primitives.MemberId(rp.id), Mode: "replay", Sig: rp.sig}}.builder())
					tags := e.Cfg.Alphabet
					if best.pv >= 0 {
						tags = []string{best.tag}
					}
					for _, tag := range tags {
						x := a.blockFor(h, tag)
						add(f.CreateNewViewMessage(H, V, f.CreatePreprepareMessageContentBuilder(H, V, x, kit.HashOf(x)), confs, x), "NVP")
					}
				}
			}
		}
		_ = me
	}
	if a.on("NVT") {
		// proof-less votes of everybody known + own vote, a fresh block, every signature genuine; only the embedded
		// proposal's header declares the type COMMIT instead of PREPREPARE (signed as it stands by this leader)
		me := signerT{ID: b, Mode: "valid"}
		votes := []voteT{{T: protocol.LEAN_HELIX_VIEW_CHANGE, I: kit.Instance, H: H, V: V, S: me}}
		ids := map[string]bool{string(b): true}
		for _, c := range pool {
			if c.pv < 0 && !ids[c.id] {
				ids[c.id] = true
				votes = append(votes, voteT{T: protocol.LEAN_HELIX_VIEW_CHANGE, I: kit.Instance, H: H, V: V, S: signerT{ID: primitives.MemberId(c.id), Mode: "replay", Sig: c.vcm.Content().Sender().Signature()}})
			}
		}
		if r.IsQuorum(ids) {
			for _, tag := range e.Cfg.Alphabet {
				x := a.blockFor(h, tag)
				addRaw(mkNV(nvT{T: protocol.LEAN_HELIX_NEW_VIEW, I: kit.Instance, H: H, V: V, Votes: votes, S: me,
					PP: brefT{protocol.LEAN_HELIX_COMMIT, kit.Instance, H, V, kit.HashOf(x)}, PPS: me}, x), "NVT")
			}
		}
	}
	if a.on("NVE") {
		me := signerT{ID: b, Mode: "valid"}
		for _, pr := range a.emptyHashProofs(soup, h, v) {
			votes := []voteT{{T: protocol.LEAN_HELIX_VIEW_CHANGE, I: kit.Instance, H: H, V: V, Proof: pr, S: me}}
			ids := map[string]bool{string(b): true}
			for _, c := range pool {
				if c.pv < 0 && !ids[c.id] {
					ids[c.id] = true
					votes = append(votes, voteT{T: protocol.LEAN_HELIX_VIEW_CHANGE, I: kit.Instance, H: H, V: V, S: signerT{ID: primitives.MemberId(c.id), Mode: "replay", Sig: c.vcm.Content().Sender().Signature()}})
				}
			}
			if !r.IsQuorum(ids) {
				continue
			}
			for _, tag := range e.Cfg.Alphabet {
				z := a.blockFor(h, tag)
				// the embedded proposal names the proven (empty) hash, the attached block is arbitrary; and the variant naming the block's own hash
				addRaw(mkNV(nvT{T: protocol.LEAN_HELIX_NEW_VIEW, I: kit.Instance, H: H, V: V, Votes: votes, S: me,
					PP: brefT{protocol.LEAN_HELIX_PREPREPARE, kit.Instance, H, V, nil}, PPS: me}, z), "NVE")
				addRaw(mkNV(nvT{T: protocol.LEAN_HELIX_NEW_VIEW, I: kit.Instance, H: H, V: V, Votes: votes, S: me,
					PP: brefT{protocol.LEAN_HELIX_PREPREPARE, kit.Instance, H, V, kit.HashOf(z)}, PPS: me}, z), "NVE")
			}
		}
	}
	if a.on("NVF") {
		// votes attributed to honest members under signatures the adversary cannot produce
		var confs []*protocol.ViewChangeMessageContentBuilder
		ids := map[string]bool{string(b): true}
		confs = append(confs, f.CreateViewChangeMessageContentBuilder(H, V, nil))
		for _, m := range e.Cfg.C {
			if r.IsQuorum(ids) {
				break
			}
			if string(m.ID) == string(b) {
				continue
			}
			ids[string(m.ID)] = true
			confs = append(confs, &protocol.ViewChangeMessageContentBuilder{
				SignedHeader: &protocol.ViewChangeHeaderBuilder{MessageType: protocol.LEAN_HELIX_VIEW_CHANGE, InstanceId: kit.Instance, BlockHeight: H, View: V},
				Sender:       &protocol.SenderSignatureBuilder{MemberId: m.ID, Signature: []byte("forged")},
			})
		}
		for _, tag := range e.Cfg.Alphabet {
			x := a.blockFor(h, tag)
			ppb := f.CreatePreprepareMessageContentBuilder(H, V, x, kit.HashOf(x))
			add(f.CreateNewViewMessage(H, V, ppb, confs, x), "NVF")
		}
	}
}

// emptyHashProofs: for every view pv < v that a Byzantine member led, the "prepared proof" for (pv, empty hash) whose
// PREPREPARE part that leader signs itself and whose PREPARE part replays the signatures of the proof-less VIEW_CHANGE
// votes for pv that the other members addressed to it (declared type VIEW_CHANGE, so that the replayed bytes are the
// ones the voters signed if the two encodings coincide). Whether those signatures verify is decided by the real code.
func (a *Adv) emptyHashProofs(soup []Sent, h, v uint64) []proofT {
	e := a.e
	r := e.W.R
	H := primitives.BlockHeight(h)
	var res []proofT
	for pv := uint64(1); pv < v; pv++ {
		ld := primitives.MemberId(r.Leader(pv))
		if !a.owns(ld) {
			continue
		}
		ids := map[string]bool{string(ld): true}
		pr := proofT{Present: true,
			PP:       brefT{protocol.LEAN_HELIX_PREPREPARE, kit.Instance, H, primitives.View(pv), nil},
			P:        brefT{protocol.LEAN_HELIX_VIEW_CHANGE, kit.Instance, H, primitives.View(pv), nil},
			PPSender: signerT{ID: ld, Mode: "valid"}}
		type sv struct {
			id  string
			sig []byte
		}
		var svs []sv
		for _, s := range soup {
			m := e.msg(int(s.Msg))
			i := m.Info
			if i.Kind == ref.KVC && i.Hdr.Height == h && i.Hdr.View == pv && !i.Proof.Present && !ids[i.Sender.ID] {
				ids[i.Sender.ID] = true
				vcm := interfaces.ToConsensusMessage(m.Raw).(*interfaces.ViewChangeMessage)
				svs = append(svs, sv{i.Sender.ID, vcm.Content().Sender().Signature()})
			}
		}
		for _, b := range a.byz { // other Byzantine members sign the PREPARE part genuinely
			if !ids[string(b)] {
				ids[string(b)] = true
				svs = append(svs, sv{string(b), kit.Sig("C", b, H, pr.P.builder().Build().Raw())})
			}
		}
		if !r.IsQuorum(ids) || len(svs) == 0 {
			continue
		}
		sort.Slice(svs, func(i, j int) bool { return svs[i].id < svs[j].id })
		for _, x := range svs {
			pr.PSenders = append(pr.PSenders, signerT{ID: primitives.MemberId(x.id), Mode: "replay", Sig: x.sig})
		}
		res = append(res, pr)
	}
	return res
}

// ncPad: what follows the canonical bytes of a signed header in the NC primitive.
var ncPad = []byte{0, 0, 0, 0}

func (a *Adv) owns(id primitives.MemberId) bool {
	for _, b := range a.byz {
		if string(b) == string(id) {
			return true
		}
	}
	return false
}
