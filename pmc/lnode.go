// Package pmc is engine E1: an explicit-state model checker whose transition function is the real
// WorkerLoop / LeanHelixTerm / TermInCommittee code of N nodes, driven through the verif hooks.
package pmc

import (
	"bytes"
	"context"
	"fmt"
	"sort"
	"strings"
	"time"

	"verif/kit"
	"verif/ref"

	lh "github.com/orbs-network/lean-helix-go"
	"github.com/orbs-network/lean-helix-go/services/interfaces"
	"github.com/orbs-network/lean-helix-go/services/randomseed"
	"github.com/orbs-network/lean-helix-go/spec/types/go/primitives"
	"github.com/orbs-network/lean-helix-go/spec/types/go/protocol"
)

type Violation struct {
	Prop   string `json:"prop"`
	Clause string `json:"clause"`
	Detail string `json:"detail"`
	// one-step extension (C11): the violation is about delivering message ExtMsg to node ExtPeer right after the trace
	HasExt  bool `json:"-"`
	ExtPeer int  `json:"-"`
	ExtMsg  int  `json:"-"`
}

func (v Violation) FP() string { return v.Prop + ":" + v.Clause }

type CommitRec struct {
	Height uint64
	Tag    string
	View   uint64
	Hash   string
}

type OutRec struct {
	To   []int // committee indices
	Raw  *interfaces.ConsensusRawMessage
	Info ref.Info
}

// Event kinds: 'd' deliver a message, 't' election timeout, 's' node sync to the block at Msg-th committed height.
type Event struct {
	Kind byte
	Msg  int
}

type World struct {
	C               kit.Committee
	R               *ref.Rules
	Desc            bool
	Invalid         map[int]map[string]bool // per node: block tags its consumer rejects
	SloppyValidator bool                    // consumer validators accept a missing block (robustness runs of C12)
	CommitFails     bool                    // every commit callback fails
	CommitFailsAt   map[int]bool            // the commit callback of these members (committee indices) fails
	MaxCommits      int                     // > 0: the consumer's commit callback fails from the (MaxCommits+1)-th block on (bounds runs in which a member decides heights alone)
	// Validate runs strict ValidateBlockConsensus on a different correct node (C03).
	Validate func(block interfaces.Block, proof []byte, prevProof []byte) error
	// Chain holds, per height, the (block, proof) pairs honest nodes committed so far (for sync events).
}

// LNode = one honest node: real code + strict SPI fakes + shadow.
type LNode struct {
	W             *World
	Idx           int
	ID            primitives.MemberId
	V             *lh.VerifNode
	Trig          *kit.FakeTrigger
	Store         *kit.Store
	Comm          *kit.Comm
	BU            *kit.BlockUtils
	KM            *kit.KeyManager
	Mem           *kit.Membership
	Sh            *ref.Shadow
	Commits       []CommitRec
	commitRefused bool // the consumer's commit callback returned an error at least once: the node stays in a height it decided
	Proofs        [][]byte
	Blocks        []interfaces.Block
	Rounds        []string
	Dead          string // non-empty after a panic
	// CommitErr, if set, makes the commit callback fail (environment answer).
	CommitErr bool
	seq       []seqEv         // outputs and commits in the order they happened
	early     []earlyMsg      // messages delivered for a height above the current one (the code caches them)
	Approved  map[string]bool // tags approved by this node's consumer validator
	Requested map[string]bool
	seed      uint64
}

func NewLNode(w *World, idx int) *LNode {
	id := w.C[idx].ID
	n := &LNode{W: w, Idx: idx, ID: id, Trig: &kit.FakeTrigger{}, Store: kit.NewStore(w.Desc), Comm: &kit.Comm{}, KM: &kit.KeyManager{Me: id},
		Mem: &kit.Membership{Me: id, Committee: w.C}, Approved: map[string]bool{}, Requested: map[string]bool{}}
	n.BU = &kit.BlockUtils{Me: id, Invalid: w.Invalid[idx], AcceptNil: w.SloppyValidator}
	n.Sh = ref.NewShadow(w.R, string(id))
	cfg := &interfaces.Config{InstanceId: kit.Instance, Communication: n.Comm, Membership: n.Mem, BlockUtils: n.BU, KeyManager: n.KM,
		OverrideElectionTrigger: n.Trig, Storage: n.Store}
	n.V = lh.NewVerifNode(cfg, func(ctx context.Context, b interfaces.Block, p []byte) error {
		if n.CommitErr || w.CommitFails || w.CommitFailsAt[idx] || (w.MaxCommits > 0 && len(n.Blocks) >= w.MaxCommits) {
			n.commitRefused = true
			return fmt.Errorf("consumer failed to commit")
		}
		n.Blocks = append(n.Blocks, b)
		n.Proofs = append(n.Proofs, append([]byte{}, p...))
		n.seq = append(n.seq, seqEv{true, len(n.Blocks) - 1})
		return nil
	}, func(ctx context.Context, h primitives.BlockHeight, prev interfaces.Block, can bool) {
		n.Rounds = append(n.Rounds, fmt.Sprintf("%d/%v", h, can))
	})
	n.Comm.Hook = func(kit.Out) { n.seq = append(n.seq, seqEv{false, len(n.Comm.Outs) - 1}) }
	n.BU.View = func() uint64 { return uint64(n.V.S.View()) }
	n.seed = randomseed.CalculateRandomSeed(nil)
	return n
}

// Start = the consumer's initial UpdateState(genesis).
func (n *LNode) Start() StepObs {
	return n.Step(Event{Kind: 's', Msg: 0}, nil, ref.Info{}, nil)
}

// StepWatchdog: how long one real local step may take before it is declared wedged (a step takes micro- to milliseconds).
var StepWatchdog = 60 * time.Second

type StepObs struct {
	Outs    []OutRec
	Commits []CommitRec
	Viol    []Violation
}

func (n *LNode) idxOf(ids []primitives.MemberId) []int {
	r := make([]int, 0, len(ids))
	for _, id := range ids {
		r = append(r, n.W.C.Index(id))
	}
	sort.Ints(r)
	return r
}

func (n *LNode) wouldApprove(raw *interfaces.ConsensusRawMessage, hash string) bool {
	if raw == nil || raw.Block == nil {
		return raw != nil && n.BU.AcceptNil
	}
	return fmt.Sprintf("%x", []byte(kit.HashOf(raw.Block))) == hash && uint64(raw.Block.Height()) == n.Sh.Height && !n.BU.Invalid[kit.TagOf(raw.Block)]
}

// Step applies one event to the real node and runs every per-node monitor.
// syncBlk/syncProof are used by 's' events.
func (n *LNode) Step(e Event, raw *interfaces.ConsensusRawMessage, info ref.Info, sync *SyncArg) (obs StepObs) {
	if n.Dead != "" {
		return
	}
	if t := n.V.Term(); t != nil {
		n.seed = t.VerifRandomSeed()
	}
	preOuts, preCommits, preAll, preVals, preReqs := len(n.Comm.Outs), len(n.Blocks), len(n.Store.All), len(n.BU.Vals), len(n.BU.Reqs)
	preSeq := len(n.seq)
	preRounds := len(n.Rounds)
	preView := uint64(n.V.S.View())
	preHeight := uint64(n.V.S.Height())
	prePrep, preComm, preLatest := n.flags()
	trigger := "-"
	switch e.Kind {
	case 'd':
		trigger = info.Kind
		if info.Kind == ref.KPP && info.Hdr.View > 0 {
			trigger = "standalone-PP"
		}
		shareOK := info.Kind == ref.KC && bytes.Equal(info.Share, kit.Share([]byte(info.Sender.ID), primitives.BlockHeight(info.Hdr.Height), randomseed.RandomSeedToBytes(n.seed)))
		hash := info.Hdr.Hash
		if info.Kind == ref.KNV {
			hash = info.PP.Hash
		}
		if !info.Bad && info.Hdr.Height > n.Sh.Height {
			n.early = append(n.early, earlyMsg{raw, info})
		}
		n.Sh.OnDeliver(info, shareOK, n.wouldApprove(raw, hash))
	}
	// the real call runs under a watchdog: a handler that never returns (a lock left held, a wait nobody ends) would
	// otherwise hang the whole search; it is a wedged node (C12), reported like a panic, and the node is abandoned
	done := make(chan struct{})
	var panicked interface{}
	go func() {
		defer close(done)
		defer func() { panicked = recover() }()
		switch e.Kind {
		case 'd':
			n.V.Deliver(raw)
		case 't':
			if h, v, armed := n.Trig.Armed(); armed {
				cb := n.Trig.Cb
				n.V.Election(primitives.BlockHeight(h), primitives.View(v), func() { cb(primitives.BlockHeight(h), primitives.View(v), nil) })
			}
		case 's':
			if sync == nil {
				n.V.Sync(nil, nil)
			} else {
				n.V.Sync(sync.Block, sync.Proof)
			}
		}
	}()
	select {
	case <-done:
		if panicked != nil {
			n.Dead = fmt.Sprint(panicked)
			obs.Viol = append(obs.Viol, Violation{Prop: "C12", Clause: "panic", Detail: fmt.Sprintf("node n%d panicked on %c: %v", n.Idx, e.Kind, panicked)})
		}
	case <-time.After(StepWatchdog):
		n.Dead = "handler did not return"
		obs.Viol = append(obs.Viol, Violation{Prop: "C12", Clause: "handler-does-not-return", Detail: fmt.Sprintf("node n%d: handling %c %s did not return within %v (single-threaded, no blocking SPI in this harness): the worker is wedged", n.Idx, e.Kind, info.Desc(), StepWatchdog)})
		return obs
	}
	hv := n.V.S.HeightView()
	height, view := uint64(hv.Height()), uint64(hv.View())
	if e.Kind == 'd' && n.Dead == "" {
		stored := false
		for _, d := range n.Store.All[preAll:] {
			if len(d) > 2 && d[:2] == "1/" {
				stored = true
			}
		}
		fp, fc, fl := n.flags()
		if stored || len(n.Comm.Outs) > preOuts || len(n.Blocks) > preCommits || height != preHeight || view != preView || fp != prePrep || fc != preComm || fl != preLatest {
			if ok, why := n.mayInfluence(info, preHeight, preView); !ok {
				obs.Viol = append(obs.Viol, Violation{Prop: "C08", Clause: "influence-" + why, Detail: fmt.Sprintf("n%d at (h%d,v%d) was influenced (stored=%v sent=%d view->%d) by %s, which must be ignored: %s", n.Idx, preHeight, preView, stored, len(n.Comm.Outs)-preOuts, view, info.Desc(), why)})
			}
		}
	}
	sh := n.Sh
	r := n.W.R
	me := string(n.ID)
	if e.Kind == 's' && height != sh.Height { // entering a height by sync: the shadow starts afresh
		// (the height the sync leads to — the step may go on from there: a member that is a quorum by itself
		// commits inside the step that starts the height)
		entered := uint64(1)
		if sync != nil && sync.Block != nil {
			entered = uint64(sync.Block.Height()) + 1
		}
		if entered > height || len(n.Blocks) == preCommits {
			entered = height
		}
		sh.Reset(entered)
		n.replayEarly(entered)
	}
	for _, vc := range n.BU.Vals[preVals:] {
		if vc.OK {
			n.Approved[vc.Tag] = true
		}
	}
	for _, rc := range n.BU.Reqs[preReqs:] {
		n.Requested[rc.Tag] = true
	}
	if e.Kind == 't' && preHeight == sh.Height && (view > preView && height == preHeight || height > preHeight) {
		// the timeout of (preHeight, preView) was acted upon: the node entered preView+1 by its own vote. (A member that
		// is a quorum by itself may be elected, decide and leave the height inside this very step.)
		sh.TimedOutTo[preView+1] = true
	}
	bad := func(prop, clause, format string, a ...interface{}) {
		obs.Viol = append(obs.Viol, Violation{Prop: prop, Clause: clause, Detail: fmt.Sprintf("n%d: ", n.Idx) + fmt.Sprintf(format, a...)})
	}

	// ---- C13: the observable (height, view) never decreases
	if height < preHeight || (height == preHeight && view < preView) {
		bad("C13", "state-decreased", "(height, view) went from (%d,%d) to (%d,%d) on %c %s", preHeight, preView, height, view, e.Kind, info.Desc())
	}
	// ---- C13: the heights handed to the new-round callback strictly increase (also when cached messages of the next
	// height decide it inside the step that starts it)
	for k := preRounds; k < len(n.Rounds); k++ {
		if k > 0 {
			var a, b uint64
			fmt.Sscanf(n.Rounds[k-1], "%d/", &a)
			fmt.Sscanf(n.Rounds[k], "%d/", &b)
			if b <= a {
				bad("C13", "round-heights-not-increasing", "new-round callback heights %v", n.Rounds)
			}
		}
	}

	// ---- outputs and commits, in the order they happened (a step may commit a height and go on in the next one)
	handleOut := func(o kit.Out) {
		oi := ref.Parse(o.Msg)
		obs.Outs = append(obs.Outs, OutRec{To: n.idxOf(o.To), Raw: o.Msg, Info: oi})
		if oi.Bad || oi.Sender.ID != me || oi.Hdr.Height != sh.Height {
			if !oi.Bad && oi.Hdr.Height != sh.Height {
				bad("C17", "output-for-other-height", "emitted %s while at height %d", oi.Desc(), sh.Height)
			}
			return
		}
		v := oi.Hdr.View
		if !oi.Sender.SigOK {
			bad("C11", "own-signature-invalid", "emitted %s with a signature that does not verify", oi.Desc())
		}
		switch oi.Kind {
		case ref.KPP, ref.KNV:
			hash := oi.Hdr.Hash
			if oi.Kind == ref.KNV {
				hash = oi.PP.Hash
				v = oi.Hdr.View
			}
			if prev, ok := sh.OwnProp[v]; ok && prev != hash {
				bad("C10", "two-proposals", "proposed %s and %s in view %d", short(prev), short(hash), v)
			}
			if r.Leader(v) != me {
				bad("C10", "proposal-by-non-leader", "proposed in view %d led by %s", v, r.Leader(v))
			}
			if v < sh.MaxOut {
				bad("C10", "proposal-for-lower-view", "proposal for view %d after reaching view %d", v, sh.MaxOut)
			}
			if v > 0 {
				ids := map[string]bool{}
				for id := range sh.Votes[v] {
					ids[id] = true
				}
				for id := range sh.OptVotes[v] {
					ids[id] = true
				}
				if sh.TimedOutTo[v] {
					ids[me] = true
				}
				if !r.IsQuorum(ids) {
					bad("C07", "leader-proposes-without-votes", "proposed in view %d holding valid votes of %v only", v, keys(ids))
				}
				if oi.Kind == ref.KPP {
					bad("C07", "leader-standalone-preprepare", "sent a stand-alone PREPREPARE in view %d", v)
				}
			}
			if oi.Kind == ref.KNV {
				n.checkOwnNewView(oi, preReqs, bad)
			}
			sh.OwnProp[v] = hash
			sh.Accepted[v], sh.AccTag[v] = hash, oi.BlockTag
			if v > sh.View {
				sh.View = v
			}
			sh.Recheck(v)
		case ref.KP:
			hash := oi.Hdr.Hash
			if prev, ok := sh.OwnPrep[v]; ok && prev != hash {
				bad("C10", "two-prepares", "sent PREPARE for %s and %s in view %d", short(prev), short(hash), v)
			}
			if r.Leader(v) == me {
				bad("C10", "prepare-by-leader", "sent PREPARE in view %d which it leads", v)
			}
			if v < sh.MaxOut {
				bad("C10", "prepare-for-lower-view", "PREPARE for view %d after reaching view %d", v, sh.MaxOut)
			}
			if _, ok := sh.Props[v][hash]; !ok {
				bad("C10", "prepare-without-leader-proposal", "PREPARE(v%d,#%s) but no genuine proposal of %s for it was delivered in that view (trigger=%s)", v, short(hash), r.Leader(v), trigger)
			}
			if v > 0 && !sh.NVs[v][hash] {
				bad("C07", "prepare-without-valid-newview", "PREPARE(v%d,#%s) without a valid NEW_VIEW for that view and block (trigger=%s)", v, short(hash), trigger)
			}
			sh.OwnPrep[v] = hash
			if v > sh.View {
				sh.View = v
			}
			sh.Accepted[v], sh.AccTag[v] = hash, sh.Props[v][hash]
			sh.Recheck(v)
		case ref.KC:
			hash := oi.Hdr.Hash
			if prev, ok := sh.OwnCommit[v]; ok && prev != hash {
				bad("C10", "two-commits", "sent COMMIT for %s and %s in view %d", short(prev), short(hash), v)
			}
			if !sh.MayCommit(v, hash) {
				bad("C10", "commit-without-certificate", "COMMIT(v%d,#%s) without a prepared certificate or a commit quorum for that pair (trigger=%s)", v, short(hash), trigger)
			}
			sh.OwnCommit[v] = hash
		case ref.KVC:
			if int64(v) <= sh.LastVC {
				bad("C10", "view-change-not-increasing", "VIEW_CHANGE for view %d after one for view %d", v, sh.LastVC)
			}
			sh.LastVC = int64(v)
			if len(o.To) != 1 || string(o.To[0]) != r.Leader(v) {
				bad("C18", "vote-sent-to-wrong-member", "VIEW_CHANGE for view %d sent to %v, leader is %s", v, o.To, r.Leader(v))
			}
			n.checkOwnVote(oi, v, bad)
		}
		if v > sh.MaxOut {
			sh.MaxOut = v
		}
	}
	_ = preOuts

	// ---- stores: adopting a foreign proposal in a view above 0 needs a valid NEW_VIEW (C07)
	for _, d := range n.Store.All[preAll:] {
		f := strings.Split(d, "/")
		if len(f) >= 7 && f[0] == "1" && f[1] == "PP" {
			var sv uint64
			fmt.Sscanf(f[3], "%d", &sv)
			if sv > 0 && f[5] != me && fmt.Sprint(sh.Height) == f[2] && !sh.NVs[sv][f[4]] {
				bad("C07", "adopt-without-valid-newview", "stored proposal #%s of view %d without a valid NEW_VIEW (trigger=%s)", short(f[4]), sv, trigger)
			}
		}
	}

	// ---- commits
	handleCommit := func(k int) {
		b, p := n.Blocks[k], n.Proofs[k]
		c := CommitRec{Height: uint64(b.Height()), Tag: kit.TagOf(b)}
		pr := protocol.BlockProofReader(p)
		c.View, c.Hash = uint64(pr.BlockRef().View()), fmt.Sprintf("%x", []byte(pr.BlockRef().BlockHash()))
		n.Commits = append(n.Commits, c)
		obs.Commits = append(obs.Commits, c)
		if c.Height != sh.Height {
			bad("C04", "commit-height", "committed a block of height %d while deciding height %d", c.Height, sh.Height)
		}
		if fmt.Sprintf("%x", []byte(kit.HashOf(b))) != c.Hash {
			bad("C04", "commit-hash", "committed block %s whose hash differs from the certified hash #%s", c.Tag, short(c.Hash))
		}
		if _, ok := sh.Props[c.View][c.Hash]; !ok && sh.OwnProp[c.View] != c.Hash {
			bad("C04", "commit-without-leader-proposal", "committed #%s of view %d for which no PREPREPARE signed by %s was delivered", short(c.Hash), c.View, r.Leader(c.View))
		}
		if n.W.Validate != nil {
			var prevProof []byte
			if k > 0 {
				prevProof = n.Proofs[k-1]
			}
			if err := n.W.Validate(b, p, prevProof); err != nil {
				bad("C03", "committed-pair-rejected", "committed (%s, proof v%d #%s signers %v) is rejected by strict ValidateBlockConsensus on a peer: %v", c.Tag, c.View, short(c.Hash), proofSigners(p), err)
			}
		}
		if len(n.Commits) > 1 && n.Commits[len(n.Commits)-2].Height >= c.Height {
			bad("C13", "commit-heights-not-increasing", "commit for height %d after commit for height %d", c.Height, n.Commits[len(n.Commits)-2].Height)
		}
		sh.Committed = true
		// the term of the next height starts right after the commit callback returned
		sh.Reset(c.Height + 1)
		n.replayEarly(c.Height + 1)
	}
	for _, ev := range n.seq[preSeq:] {
		if ev.commit {
			handleCommit(ev.idx)
		} else {
			handleOut(n.Comm.Outs[ev.idx])
		}
	}
	_ = preCommits
	if view < sh.View && height == sh.Height {
		bad("C13", "view-decreased", "state view %d after %d at height %d", view, sh.View, height)
	}
	if height < sh.Height {
		bad("C13", "height-decreased", "state height %d after %d", height, sh.Height)
	}
	if height != sh.Height {
		sh.Reset(height)
		n.replayEarly(height)
	}
	sh.View = view
	if view > sh.MaxOut {
		sh.MaxOut = view
	}
	// ---- C11 / C05 (last clause): COMMITs are counted whenever they arrive. A member that accepted the proposal (v, X)
	// of its height (sent PREPARE for it, or proposed it) and has been delivered genuine COMMITs (valid share, committee
	// members; its own included) of quorum weight for exactly (v, X) has committed - in whatever order proposal and
	// COMMITs arrived. (Had it committed, the shadow would have moved on to the next height.)
	// ---- C11: PREPAREs are counted whenever they arrive (before or after the proposal, while the node's view is not
	// higher): a member holding a complete prepared certificate for the proposal it accepted in view v has sent COMMIT
	if n.Dead == "" && height == sh.Height {
		for v := range sh.Prepared {
			if hash := sh.Accepted[v]; sh.OwnCommit[v] != hash {
				bad("C11", "prepared-but-no-commit", "holds the proposal #%s it accepted in view %d and timely PREPAREs completing its prepared certificate, but has sent no COMMIT for it (trigger=%s)", short(hash), v, trigger)
			}
		}
	}
	if n.Dead == "" && !n.commitRefused && height == sh.Height {
		for v, hash := range sh.Accepted {
			ids := map[string]bool{}
			for id := range sh.Comms[fmt.Sprintf("%d/%s", v, hash)] {
				ids[id] = true
			}
			if sh.OwnCommit[v] == hash {
				ids[me] = true
			}
			if r.IsQuorum(ids) {
				bad("C11", "commit-quorum-not-acted-upon", "holds the proposal #%s it accepted in view %d and genuine COMMITs for exactly that pair from %v (quorum weight) but has not committed (trigger=%s)", short(hash), v, keys(ids), trigger)
			}
		}
	}
	return
}

type SyncArg struct {
	Block interfaces.Block
	Proof []byte
}

func short(h string) string {
	if len(h) > 6 {
		return h[:6]
	}
	return h
}

func keys(m map[string]bool) []string {
	r := make([]string, 0, len(m))
	for k := range m {
		r = append(r, k)
	}
	sort.Strings(r)
	return r
}

// checkOwnVote: C09 first sentence.
func (n *LNode) checkOwnVote(oi ref.Info, v uint64, bad func(prop, clause, format string, a ...interface{})) {
	sh, r := n.Sh, n.W.R
	pv, ok := sh.HighestPrepared()
	if !ok {
		return
	}
	want := sh.Accepted[pv]
	switch {
	case !oi.Proof.Present:
		bad("C09", "vote-without-proof", "VIEW_CHANGE for view %d carries no prepared proof although the node is prepared on #%s in view %d", v, short(want), pv)
	case oi.Proof.PP.View != pv || oi.Proof.PP.Hash != want:
		bad("C09", "vote-proof-not-highest", "VIEW_CHANGE for view %d carries a proof for (v%d,#%s), highest prepared is (v%d,#%s)", v, oi.Proof.PP.View, short(oi.Proof.PP.Hash), pv, short(want))
	case !r.ValidPreparedProof(oi.Proof, sh.Height, v):
		bad("C09", "vote-proof-invalid", "VIEW_CHANGE for view %d carries an invalid prepared proof: %s", v, oi.Proof)
	case oi.BlockHsh != want:
		bad("C09", "vote-block-mismatch", "VIEW_CHANGE for view %d carries block %s which does not match the proven hash #%s", v, oi.BlockTag, short(want))
	}
}

// checkOwnNewView: C09 second sentence.
func (n *LNode) checkOwnNewView(oi ref.Info, preReqs int, bad func(prop, clause, format string, a ...interface{})) {
	sh, r := n.Sh, n.W.R
	me := string(n.ID)
	v := oi.Hdr.View
	want := map[string]bool{}
	for id := range sh.Votes[v] {
		want[id] = true
	}
	if sh.TimedOutTo[v] {
		want[me] = true
	}
	got := map[string]bool{}
	var best *ref.Vote
	for k := range oi.Votes {
		vt := oi.Votes[k]
		if got[vt.Sender.ID] {
			bad("C09", "newview-duplicate-vote", "NEW_VIEW for view %d embeds two votes of %s", v, vt.Sender.ID)
		}
		got[vt.Sender.ID] = true
		if !r.ValidVote(vt, sh.Height, v) {
			bad("C09", "newview-embeds-invalid-vote", "NEW_VIEW for view %d embeds an invalid vote of %s (%s)", v, vt.Sender, vt.Proof)
			continue
		}
		if vt.Sender.ID != me {
			if fs := sh.VoteForms[v][vt.Sender.ID]; fs != nil && !fs[vt.Proof.String()] {
				bad("C09", "newview-vote-altered", "NEW_VIEW for view %d embeds a vote of %s that differs from every vote of that member delivered", v, vt.Sender.ID)
			}
		} else if pv, ok := sh.HighestPrepared(); ok && (!vt.Proof.Present || vt.Proof.PP.View != pv) {
			bad("C09", "newview-own-vote-without-proof", "own vote embedded in NEW_VIEW for view %d lacks the proof of prepared view %d", v, pv)
		}
		if vt.Proof.Present && (best == nil || vt.Proof.PP.View > best.Proof.PP.View) {
			best = &oi.Votes[k]
		}
	}
	for id := range want {
		if !got[id] {
			bad("C09", "newview-votes-not-those-counted", "NEW_VIEW for view %d embeds votes of %v, the valid votes delivered (plus own) are %v", v, keys(got), keys(want))
			break
		}
	}
	for id := range got {
		if !want[id] && !sh.OptVotes[v][id] {
			bad("C09", "newview-votes-not-those-counted", "NEW_VIEW for view %d embeds votes of %v, the valid votes delivered (plus own) are %v (optional: %v)", v, keys(got), keys(want), keys(sh.OptVotes[v]))
			break
		}
	}
	if !r.IsQuorum(got) {
		bad("C09", "newview-votes-below-quorum", "NEW_VIEW for view %d embeds votes of %v only", v, keys(got))
	}
	if oi.BlockHsh != oi.PP.Hash {
		bad("C09", "newview-block-mismatch", "NEW_VIEW for view %d attaches block %s that does not match the proposed hash", v, oi.BlockTag)
	}
	if best != nil {
		if oi.PP.Hash != best.Proof.PP.Hash {
			bad("C09", "newview-not-highest-prepared", "NEW_VIEW for view %d proposes #%s, highest prepared proof among its votes is (v%d,#%s)", v, short(oi.PP.Hash), best.Proof.PP.View, short(best.Proof.PP.Hash))
		}
	} else if len(n.BU.Reqs) == preReqs || n.BU.Reqs[len(n.BU.Reqs)-1].Tag != oi.BlockTag {
		bad("C09", "newview-fresh-block-not-requested", "NEW_VIEW for view %d proposes %s without proofs, but it is not a fresh RequestNewBlockProposal result", v, oi.BlockTag)
	}
}

func proofSigners(p []byte) []string {
	var r []string
	it := protocol.BlockProofReader(p).NodesIterator()
	for it.HasNext() {
		r = append(r, string(it.NextNodes().MemberId()))
	}
	return r
}

func (n *LNode) flags() (int64, bool, uint64) {
	if t := n.V.Term(); t != nil && t.VerifTermInCommittee() != nil {
		return t.VerifTermInCommittee().VerifFlags()
	}
	return -2, false, 0
}

// mayInfluence = the NECESSARY conditions of C08 for a delivered message to influence a node that is at
// (height, view): authentic, in-committee, this instance and height, role-correct, not stale.
func (n *LNode) mayInfluence(i ref.Info, height, view uint64) (bool, string) {
	r := n.W.R
	me := string(n.ID)
	if i.Bad {
		return false, "unparsable"
	}
	if !i.Sender.SigOK {
		return false, "signature-does-not-verify"
	}
	if !r.Member(i.Sender.ID) {
		return false, "sender-not-in-committee"
	}
	if i.Sender.ID == me {
		return false, "own-sender-id"
	}
	if i.Hdr.Inst != r.Inst {
		return false, "other-instance"
	}
	if i.Hdr.Height != height {
		return false, "other-height"
	}
	want := map[string]int{ref.KPP: int(protocol.LEAN_HELIX_PREPREPARE), ref.KP: int(protocol.LEAN_HELIX_PREPARE), ref.KC: int(protocol.LEAN_HELIX_COMMIT), ref.KVC: int(protocol.LEAN_HELIX_VIEW_CHANGE), ref.KNV: int(protocol.LEAN_HELIX_NEW_VIEW)}
	if i.Hdr.Type != want[i.Kind] {
		return false, "header-type-mismatch"
	}
	switch i.Kind {
	case ref.KPP:
		if i.Sender.ID != r.Leader(i.Hdr.View) {
			return false, "preprepare-not-from-leader"
		}
	case ref.KP:
		if i.Sender.ID == r.Leader(i.Hdr.View) {
			return false, "prepare-from-leader"
		}
		if i.Hdr.View < view {
			return false, "stale-view-prepare"
		}
	case ref.KC:
		if !bytes.Equal(i.Share, kit.Share([]byte(i.Sender.ID), primitives.BlockHeight(i.Hdr.Height), randomseed.RandomSeedToBytes(n.seed))) {
			return false, "commit-without-valid-share"
		}
	case ref.KVC:
		if r.Leader(i.Hdr.View) != me {
			return false, "vote-not-addressed-to-this-leader"
		}
		if i.Hdr.View < view {
			return false, "stale-view-vote"
		}
		if i.Proof.Present && !r.ValidPreparedProof(i.Proof, height, i.Hdr.View) {
			return false, "vote-with-invalid-proof"
		}
	case ref.KNV:
		if i.Hdr.View < view {
			return false, "stale-view-newview"
		}
		if i.Sender.ID != r.Leader(i.Hdr.View) {
			return false, "newview-not-from-leader"
		}
	}
	return true, ""
}

type seqEv struct {
	commit bool
	idx    int
}

type earlyMsg struct {
	raw  *interfaces.ConsensusRawMessage
	info ref.Info
}

// replayEarly feeds the shadow the messages that were delivered before the node reached this height (the
// code keeps them in its future cache and hands them to the new term).
func (n *LNode) replayEarly(height uint64) {
	var keep []earlyMsg
	seed := n.seed
	if t := n.V.Term(); t != nil {
		seed = t.VerifRandomSeed()
	}
	for _, m := range n.early {
		if m.info.Hdr.Height == height {
			shareOK := m.info.Kind == ref.KC && bytes.Equal(m.info.Share, kit.Share([]byte(m.info.Sender.ID), primitives.BlockHeight(height), randomseed.RandomSeedToBytes(seed)))
			hash := m.info.Hdr.Hash
			if m.info.Kind == ref.KNV {
				hash = m.info.PP.Hash
			}
			n.Sh.OnDeliver(m.info, shareOK, n.wouldApprove(m.raw, hash))
		} else if m.info.Hdr.Height > height {
			keep = append(keep, m)
		}
	}
	n.early = keep
}

// EarlyRaw lists the future-height messages delivered to this node that it has not reached yet.
func (n *LNode) EarlyRaw() []*interfaces.ConsensusRawMessage {
	var r []*interfaces.ConsensusRawMessage
	for _, m := range n.early {
		r = append(r, m.raw)
	}
	return r
}
