package pmc

import (
	"context"
	"encoding/hex"
	"encoding/json"
	"fmt"
	"os"
	"runtime/debug"
	"sort"
	"strings"
	"sync"
	"sync/atomic"
	"time"

	"verif/kit"
	"verif/ref"

	lh "github.com/orbs-network/lean-helix-go"
	"github.com/orbs-network/lean-helix-go/services/interfaces"
	"github.com/orbs-network/lean-helix-go/spec/types/go/protocol"
)

type Cfg struct {
	Name          string
	C             kit.Committee
	Byz           []int
	Silent        []int // honest members that never take a step (crashed)
	Outsider      bool
	MaxView       uint64
	Desc          bool
	Alphabet      []string
	Invalid       map[int]map[string]bool
	Prims         map[string]bool
	Eager         bool // offer Byzantine constructions even where a correct node is expected to ignore them
	RevOrder      bool // the flush macro (and the timely schedule's old messages) deliver a node's pending messages in REVERSE canonical order
	D             int  // number of single fine-grained deliveries allowed per execution (level L1); -1 = L2 (no flush)
	Cap           int
	Deadline      time.Time
	Report        map[string]bool // property ids whose violations are reported; nil = all
	Skip          map[string]bool // violation fingerprints recorded as known findings (counted, not reported)
	Heights       int             // 1 = single height (nodes stop after their commit)
	CommitFails   bool            // every consumer's commit callback fails (the node stays in the height it decided)
	CommitFailsAt []int           // only these members' commit callbacks fail
	Sloppy        bool            // consumer validators accept a missing block
	C11           bool            // one-step extension: deliver every honest output at once to every peer in a matching state
}

type Msg struct {
	ID   int
	Raw  *interfaces.ConsensusRawMessage
	Info ref.Info
	Prim string // adversary primitive that built it ("" = honest output)
}

type Sent struct {
	Msg int
	To  uint32
}

type LState struct {
	ID, Node     int
	Canon        string
	Hist, Hist2  []Event
	Height, View uint64
	Armed        bool
	Dead         bool
	Sent         []Sent
	Commits      []CommitRec
	Props        [][2]string     // stored proposals (view, hash) at the current height
	Rec          map[string]bool // successful stores at the current height
	Early        map[int]bool    // future-height messages already delivered to (and cached by) this node
	Approved     []string
	Requested    []string
	checked2     bool
}

type LRes struct {
	Next    int
	Commits []CommitRec
	Viol    []Violation
}

type lkey struct {
	ls int
	e  Event
}

const maxNodes = 7

type GKey [maxNodes + 1]int32 // local state ids of honest nodes, last = remaining fine-grained budget

type GEvent struct {
	Kind byte // 'f' flush, 't' timeout, 'b' Byzantine message, 'd' single delivery
	Node int8
	Msg  int32
}

type gedge struct {
	parent GKey
	ev     GEvent
	depth  int32
	seq    int32 // discovery index (the merge is sequential and deterministic, local-state ids are not)
}

type Found struct {
	V     Violation
	Trace []GEvent
	State GKey
}

// LocalFound = a violation observed on one node's local history (no global trace).
type LocalFound struct {
	V    Violation
	Node int
	Hist []Event
}

type Engine struct {
	mu            sync.RWMutex
	nm, nl        int
	memoS         sync.Map
	inflight      map[lkey]chan struct{}
	Workers       int
	ValidateEvery int // validate 1 of N memo misses against the second history (1 = all)
	Cfg           Cfg
	W             *World
	Honest        []int
	msgs          []*Msg
	msgIdx        map[string]int
	lstates       []*LState
	lsIdx         map[string]int
	memo          map[lkey]*LRes
	visited       map[GKey]gedge
	adv           *Adv

	realSteps, replayed                                 int64
	States, Transitions, RealSteps, Replayed, Validated int
	MaxDepth                                            int
	Exhaustive                                          bool
	StopReason                                          string
	KnownHits                                           map[string]int
	Found                                               []Found
	// Unsound is set when two histories of one canonical local state were seen to react differently: the code under
	// test keeps state the dump does not show (or the harness is nondeterministic). The merged search stops; what the
	// two diverging executions themselves violated is kept in LocalFound (each is re-validated by table-free replay).
	Unsound    string
	LocalFound []LocalFound
	seenFP     map[string]bool
	Outcomes   map[string]int
	Samples    []string
}

func NewWorld(c kit.Committee, desc bool, invalid map[int]map[string]bool) *World {
	w := &World{C: c, R: ref.NewRules(c), Desc: desc, Invalid: invalid}
	return w
}

// validatorFor builds the C03 oracle: strict ValidateBlockConsensus on a fresh real node of another member.
func validatorFor(w *World, idx int) func(interfaces.Block, []byte, []byte) error {
	id := w.C[idx].ID
	cfg := &interfaces.Config{InstanceId: kit.Instance, Communication: &kit.Comm{}, Membership: &kit.Membership{Me: id, Committee: w.C},
		BlockUtils: &kit.BlockUtils{Me: id}, KeyManager: &kit.KeyManager{Me: id}, OverrideElectionTrigger: &kit.FakeTrigger{}, Storage: kit.NewStore(false)}
	v := lh.NewVerifNode(cfg, func(context.Context, interfaces.Block, []byte) error { return nil }, nil)
	var vmu sync.Mutex
	return func(b interfaces.Block, p []byte, prevProof []byte) (err error) {
		vmu.Lock()
		defer vmu.Unlock()
		defer func() {
			if r := recover(); r != nil {
				err = fmt.Errorf("panic: %v", r)
			}
		}()
		var prev interfaces.Block
		if b != nil && b.Height() > 1 {
			prev = &kit.Block{H: b.Height() - 1, Tag: "prev"}
		}
		return v.W.ValidateBlockConsensus(context.Background(), b, p, prev, prevProof, false)
	}
}

func NewEngine(cfg Cfg) *Engine {
	e := &Engine{Cfg: cfg, inflight: map[lkey]chan struct{}{}, Workers: 16, ValidateEvery: 1, msgIdx: map[string]int{}, lsIdx: map[string]int{}, memo: map[lkey]*LRes{}, visited: map[GKey]gedge{},
		KnownHits: map[string]int{}, seenFP: map[string]bool{}, Outcomes: map[string]int{}}
	e.msgs = make([]*Msg, 1<<18)
	e.lstates = make([]*LState, 1<<21)
	e.W = NewWorld(cfg.C, cfg.Desc, cfg.Invalid)
	e.W.SloppyValidator = cfg.Sloppy
	e.W.MaxCommits = max(cfg.Heights, 1)
	e.W.CommitFails = cfg.CommitFails
	e.W.CommitFailsAt = map[int]bool{}
	for _, i := range cfg.CommitFailsAt {
		e.W.CommitFailsAt[i] = true
	}
	byz := map[int]bool{}
	for _, b := range cfg.Byz {
		byz[b] = true
	}
	for _, s := range cfg.Silent {
		byz[s] = true
	}
	for i := range cfg.C {
		if !byz[i] {
			e.Honest = append(e.Honest, i)
		}
	}
	if len(e.Honest) > maxNodes {
		panic("too many honest nodes")
	}
	e.W.Validate = validatorFor(e.W, e.Honest[len(e.Honest)-1])
	e.adv = newAdv(e)
	return e
}

func msgKey(raw *interfaces.ConsensusRawMessage) string {
	return hex.EncodeToString(raw.Content) + "|" + kit.TagOf(raw.Block) + fmt.Sprint(blockHeight(raw.Block))
}
func blockHeight(b interfaces.Block) uint64 {
	if b == nil {
		return 0
	}
	return uint64(b.Height())
}

func (e *Engine) intern(raw *interfaces.ConsensusRawMessage, prim string) int {
	k := msgKey(raw)
	e.mu.Lock()
	defer e.mu.Unlock()
	if id, ok := e.msgIdx[k]; ok {
		return id
	}
	m := &Msg{ID: e.nm, Raw: raw, Info: ref.Parse(raw), Prim: prim}
	if e.nm >= len(e.msgs) {
		panic(HarnessError{"message table full"})
	}
	e.msgs[e.nm] = m
	e.nm++
	e.msgIdx[k] = m.ID
	return m.ID
}

func mask(to []int) uint32 {
	var m uint32
	for _, t := range to {
		if t >= 0 {
			m |= 1 << uint(t)
		}
	}
	return m
}

// ---------------------------------------------------------------- local states

type liveNode struct {
	n         *LNode
	sent      map[Sent]bool
	startViol []Violation
}

func (e *Engine) fresh(node int) *liveNode {
	ln := &liveNode{n: NewLNode(e.W, node), sent: map[Sent]bool{}}
	obs := ln.n.Start()
	e.absorb(ln, obs)
	ln.startViol = obs.Viol
	return ln
}

func (e *Engine) absorb(ln *liveNode, obs StepObs) {
	for _, o := range obs.Outs {
		id := e.intern(o.Raw, "")
		ln.sent[Sent{id, mask(o.To)}] = true
	}
}

func (e *Engine) apply(ln *liveNode, ev Event) StepObs {
	var obs StepObs
	switch ev.Kind {
	case 'd':
		m := e.msg(ev.Msg)
		obs = ln.n.Step(ev, m.Raw, m.Info, nil)
	default:
		obs = ln.n.Step(ev, nil, ref.Info{}, nil)
	}
	e.absorb(ln, obs)
	return obs
}

func (e *Engine) canon(ln *liveNode) (string, *LState) {
	n := ln.n
	hv := n.V.S.HeightView()
	ls := &LState{Node: n.Idx, Height: uint64(hv.Height()), View: uint64(hv.View()), Dead: n.Dead != ""}
	p, c, l := int64(-2), false, uint64(0)
	if t := n.V.Term(); t != nil && t.VerifTermInCommittee() != nil {
		p, c, l = t.VerifTermInCommittee().VerifFlags()
	}
	ah, av, armed := n.Trig.Armed()
	ls.Armed = armed
	for s := range ln.sent {
		ls.Sent = append(ls.Sent, s)
	}
	sort.Slice(ls.Sent, func(i, j int) bool {
		if ls.Sent[i].Msg != ls.Sent[j].Msg {
			return ls.Sent[i].Msg < ls.Sent[j].Msg
		}
		return ls.Sent[i].To < ls.Sent[j].To
	})
	ls.Commits = append([]CommitRec{}, n.Commits...)
	rec := n.Store.SortedRec()
	ls.Rec = map[string]bool{}
	for _, d := range rec {
		ls.Rec[d] = true
		if f := strings.Split(d, "/"); f[0] == "VC" && len(f) >= 4 {
			ls.Rec["VCS/"+f[1]+"/"+f[2]+"/"+f[3]] = true
		}
		f := strings.Split(d, "/")
		if f[0] == "PP" && f[1] == fmt.Sprint(ls.Height) {
			ls.Props = append(ls.Props, [2]string{f[2], f[3]})
		}
	}
	ls.Approved, ls.Requested = keys(n.Approved), keys(n.Requested)
	ls.Early = map[int]bool{}
	for _, raw := range n.EarlyRaw() {
		ls.Early[e.intern(raw, "")] = true
	}
	armedS := "none"
	if armed {
		armedS = fmt.Sprintf("%d/%d", ah, av)
	}
	var b strings.Builder
	fmt.Fprintf(&b, "n%d|%s|p%d c%v l%d|armed %s|dead=%q|cerr=%v\n", n.Idx, hv, p, c, l, armedS, n.Dead, n.CommitErr)
	fmt.Fprintf(&b, "rec=%v\n", rec)
	fmt.Fprintf(&b, "ctx=%s\n", n.V.S.Contexts.VerifDump())
	fmt.Fprintf(&b, "flt=%s hdl=%v msync=%s\n", n.V.Filter().VerifDump(), n.V.Filter().VerifHasHandler(), n.V.VerifMaxSync())
	fmt.Fprintf(&b, "commits=%v rounds=%v\n", n.Commits, n.Rounds)
	fmt.Fprintf(&b, "sent=%v\n", ls.Sent)
	fmt.Fprintf(&b, "appr=%v req=%v\n", ls.Approved, ls.Requested)
	b.WriteString(n.Sh.Dump())
	ls.Canon = b.String()
	return ls.Canon, ls
}

func (e *Engine) internState(ln *liveNode, hist []Event) int {
	c, ls := e.canon(ln)
	e.mu.Lock()
	defer e.mu.Unlock()
	if id, ok := e.lsIdx[c]; ok {
		old := e.lstates[id]
		if old.Hist2 == nil && !sameHist(old.Hist, hist) {
			old.Hist2 = append([]Event{}, hist...)
		}
		return id
	}
	ls.ID = e.nl
	ls.Hist = append([]Event{}, hist...)
	if e.nl >= len(e.lstates) {
		panic(HarnessError{"local state table full"})
	}
	e.lstates[e.nl] = ls
	e.nl++
	e.lsIdx[c] = ls.ID
	return ls.ID
}

func sameHist(a, b []Event) bool {
	if len(a) != len(b) {
		return false
	}
	for i := range a {
		if a[i] != b[i] {
			return false
		}
	}
	return true
}

func (e *Engine) rebuild(node int, hist []Event) *liveNode {
	ln := e.fresh(node)
	for _, h := range hist {
		e.apply(ln, h)
		atomic.AddInt64(&e.replayed, 1)
	}
	return ln
}

type HarnessError struct{ Msg string }

func (h HarnessError) Error() string { return h.Msg }

// msgs and lstates are fixed-capacity tables: slots are written once (under mu) before their index is
// published through the memo / interning maps, and never move, so readers need no lock.
func (e *Engine) msg(id int) *Msg { return e.msgs[id] }

func (e *Engine) lstate(id int) *LState { return e.lstates[id] }

func (e *Engine) localStep(ls int, ev Event) *LRes {
	k := lkey{ls, ev}
	for {
		if r, ok := e.memoS.Load(k); ok {
			return r.(*LRes)
		}
		e.mu.Lock()
		if r, ok := e.memo[k]; ok {
			e.mu.Unlock()
			return r
		}
		if ch, ok := e.inflight[k]; ok {
			e.mu.Unlock()
			<-ch
			continue
		}
		ch := make(chan struct{})
		e.inflight[k] = ch
		e.mu.Unlock()
		r := e.computeStep(ls, ev)
		e.mu.Lock()
		e.memo[k] = r
		delete(e.inflight, k)
		e.mu.Unlock()
		e.memoS.Store(k, r)
		close(ch)
		return r
	}
}

func (e *Engine) computeStep(ls int, ev Event) *LRes {
	s := e.lstate(ls)
	run := func(hist []Event) (*LRes, string) {
		ln := e.rebuild(s.Node, hist)
		if c, _ := e.canon(ln); c != s.Canon {
			panic(HarnessError{"replay divergence (nondeterminism in harness or code):\n" + c + "\n--- expected\n" + s.Canon})
		}
		obs := e.apply(ln, ev)
		atomic.AddInt64(&e.realSteps, 1)
		next := e.internState(ln, append(append([]Event{}, hist...), ev))
		return &LRes{Next: next, Commits: obs.Commits, Viol: obs.Viol}, fmt.Sprint(obs.Viol)
	}
	r, sig := run(s.Hist)
	e.mu.Lock()
	h2 := s.Hist2
	e.mu.Unlock()
	if h2 != nil && (e.ValidateEvery <= 1 || (ls+ev.Msg+int(ev.Kind))%e.ValidateEvery == 0) {
		r2, sig2 := run(h2)
		e.mu.Lock()
		e.Validated++
		e.mu.Unlock()
		if r2.Next != r.Next || sig != sig2 {
			e.mu.Lock()
			for _, v := range r.Viol {
				e.LocalFound = append(e.LocalFound, LocalFound{v, s.Node, append(append([]Event{}, s.Hist...), ev)})
			}
			for _, v := range r2.Viol {
				e.LocalFound = append(e.LocalFound, LocalFound{v, s.Node, append(append([]Event{}, h2...), ev)})
			}
			e.mu.Unlock()
			panic(HarnessError{fmt.Sprintf("abstraction unsound: local state %d reached by two histories reacts differently to %v:\n%s\n%s\n---\n%s\n%s\nhist1=%s\nhist2=%s\nev=%s", ls, ev, e.lstate(r.Next).Canon, sig, e.lstate(r2.Next).Canon, sig2, e.histStr(s.Hist), e.histStr(h2), e.histStr([]Event{ev}))})
		}
	}
	return r
}

// ---------------------------------------------------------------- global search

func (e *Engine) soup(g GKey) []Sent {
	var r []Sent
	for s := range e.Honest {
		r = append(r, e.lstate(int(g[s])).Sent...)
	}
	return r
}

var typeOrder = map[string]int{ref.KNV: 0, ref.KPP: 1, ref.KP: 2, ref.KC: 3, ref.KVC: 4}

func (e *Engine) addressed(soup []Sent, node int, ls *LState) []int {
	var r []int
	height := ls.Height
	for _, s := range soup {
		if s.To&(1<<uint(node)) != 0 {
			if ls.Early[s.Msg] {
				continue // a future-height message this node already holds in its cache (re-delivery would only grow the cache)
			}
			if mh := e.msg(int(s.Msg)).Info.Hdr.Height; e.Cfg.Heights <= 1 && mh != height || mh < height || mh > uint64(max(e.Cfg.Heights, 1)) {
				continue // single-height runs: only the current height; multi-height: nothing below it, nothing beyond the last height
			}
			r = append(r, s.Msg)
		}
	}
	sort.Slice(r, func(a, b int) bool {
		ma, mb := e.msg(int(r[a])).Info, e.msg(int(r[b])).Info
		if typeOrder[ma.Kind] != typeOrder[mb.Kind] {
			return typeOrder[ma.Kind] < typeOrder[mb.Kind]
		}
		if ma.Hdr.View != mb.Hdr.View {
			return ma.Hdr.View < mb.Hdr.View
		}
		if ma.Sender.ID != mb.Sender.ID {
			return ma.Sender.ID < mb.Sender.ID
		}
		if ma.Hdr.Hash != mb.Hdr.Hash {
			return ma.Hdr.Hash < mb.Hdr.Hash
		}
		return msgKey(e.msg(r[a]).Raw) < msgKey(e.msg(r[b]).Raw)
	})
	if e.Cfg.RevOrder { // "latest kind first": COMMITs before PREPAREs before the proposal they belong to
		for i, j := 0, len(r)-1; i < j; i, j = i+1, j-1 {
			r[i], r[j] = r[j], r[i]
		}
	}
	return r
}

// finished: the node takes no further steps (dead, or it has committed the last height of the run).
func (e *Engine) finished(ls *LState) bool {
	return ls.Dead || len(ls.Commits) >= max(e.Cfg.Heights, 1)
}

func (e *Engine) reportable(v Violation) bool {
	if e.Cfg.Report != nil && !e.Cfg.Report[v.Prop] {
		return false
	}
	return true
}

func (e *Engine) trace(g GKey) []GEvent {
	var tr []GEvent
	for {
		ed, ok := e.visited[g]
		if !ok || ed.depth == 0 {
			break
		}
		tr = append(tr, ed.ev)
		g = ed.parent
	}
	for i, j := 0, len(tr)-1; i < j; i, j = i+1, j-1 {
		tr[i], tr[j] = tr[j], tr[i]
	}
	return tr
}

func (e *Engine) note(v Violation, from GKey, ev GEvent) {
	if !e.reportable(v) {
		return
	}
	fp := v.FP()
	if strings.Contains(v.Detail, "trigger=standalone-PP") {
		fp += ":standalone-PP"
	}
	if e.Cfg.Skip[fp] {
		e.KnownHits[fp]++
		return
	}
	if e.seenFP[fp] {
		return
	}
	e.seenFP[fp] = true
	tr := append(e.trace(from), ev)
	e.Found = append(e.Found, Found{V: v, Trace: tr, State: from})
}

func (e *Engine) Init() GKey {
	var g GKey
	for s, node := range e.Honest {
		ln := e.fresh(node)
		g[s] = int32(e.internState(ln, nil))
		for _, v := range ln.startViol { // violations of the very first step (the consumer's initial sync): no event leads to them
			if e.reportable(v) && !e.Cfg.Skip[v.FP()] {
				e.LocalFound = append(e.LocalFound, LocalFound{v, node, nil})
			}
		}
	}
	d := e.Cfg.D
	if d < 0 {
		d = 0
	}
	g[maxNodes] = int32(d)
	return g
}

// Run explores breadth-first (level-synchronous: successors of a chunk of the frontier are computed
// in parallel, then merged sequentially in frontier order, so the result is deterministic) until the
// frontier empties, a cap is hit, or maxFound violations were found.
type succ struct {
	ng  GKey
	ev  GEvent
	res []*LRes
}

func (e *Engine) expand(g GKey) []succ {
	var out []succ
	soup := e.soup(g)
	for s, node := range e.Honest {
		ls := e.lstate(int(g[s]))
		if e.finished(ls) {
			continue
		}
		addr := e.addressed(soup, node, ls)
		if e.Cfg.D >= 0 { // flush
			cur := int(g[s])
			var rs []*LRes
			for _, m := range addr {
				r := e.localStep(cur, Event{'d', m})
				cur = r.Next
				if len(r.Viol) > 0 || len(r.Commits) > 0 {
					rs = append(rs, r)
				}
				if c := e.lstate(cur); e.finished(c) {
					break
				}
			}
			if cur != int(g[s]) || len(rs) > 0 {
				ng := g
				ng[s] = int32(cur)
				out = append(out, e.withC11(g, succ{ng, GEvent{'f', int8(node), -1}, rs}, s))
			}
		}
		if e.Cfg.D < 0 || g[maxNodes] > 0 { // single deliveries
			for _, m := range addr {
				r := e.localStep(int(g[s]), Event{'d', m})
				if r.Next != int(g[s]) || len(r.Viol) > 0 {
					ng := g
					ng[s] = int32(r.Next)
					if e.Cfg.D >= 0 {
						ng[maxNodes]--
					}
					out = append(out, e.withC11(g, succ{ng, GEvent{'d', int8(node), int32(m)}, []*LRes{r}}, s))
				}
			}
		}
		if ls.Armed && ls.View < e.Cfg.MaxView {
			r := e.localStep(int(g[s]), Event{'t', 0})
			if r.Next != int(g[s]) || len(r.Viol) > 0 {
				ng := g
				ng[s] = int32(r.Next)
				out = append(out, e.withC11(g, succ{ng, GEvent{'t', int8(node), -1}, []*LRes{r}}, s))
			}
		}
		for _, m := range e.adv.menu(soup, ls) {
			r := e.localStep(int(g[s]), Event{'d', m})
			if r.Next != int(g[s]) || len(r.Viol) > 0 {
				ng := g
				ng[s] = int32(r.Next)
				out = append(out, e.withC11(g, succ{ng, GEvent{'b', int8(node), int32(m)}, []*LRes{r}}, s))
			}
		}
	}
	return out
}

func (e *Engine) withC11(g GKey, sc succ, s int) succ {
	if e.Cfg.C11 {
		if v := e.c11(g, sc.ng, s); len(v) > 0 {
			sc.res = append(sc.res, &LRes{Viol: v})
		}
	}
	return sc
}

// c11 = the one-step extension of C11: every message newly emitted on the transition g -> ng by the node in
// slot s is delivered at once to (a replayed copy of) every correct peer that satisfies the property's
// precondition in ng; the stated effect must follow.
func (e *Engine) c11(g, ng GKey, s int) []Violation {
	before := map[Sent]bool{}
	for _, x := range e.lstate(int(g[s])).Sent {
		before[x] = true
	}
	var viol []Violation
	r := e.W.R
	for _, x := range e.lstate(int(ng[s])).Sent {
		if before[x] {
			continue
		}
		m := e.msg(x.Msg)
		i := m.Info
		if i.Bad || !i.Sender.SigOK {
			continue
		}
		for ps, pnode := range e.Honest {
			if ps == s || x.To&(1<<uint(pnode)) == 0 {
				continue
			}
			p := e.lstate(int(ng[ps]))
			if e.finished(p) || p.Height != i.Hdr.Height {
				continue
			}
			pid := string(e.Cfg.C[pnode].ID)
			v := i.Hdr.View
			var pre bool
			switch i.Kind {
			case ref.KNV:
				pre = p.View <= v
				for _, pr := range p.Props {
					if pr[0] == fmt.Sprint(v) {
						pre = false // already accepted a proposal for that view
					}
				}
			case ref.KVC:
				pre = p.View <= v && r.Leader(v) == pid && !p.Rec[vcKey(i)]
			case ref.KP:
				pre = p.View <= v && !p.Rec[fmt.Sprintf("P/%d/%d/%s/%s", i.Hdr.Height, v, i.Hdr.Hash, i.Sender.ID)]
			case ref.KC:
				pre = !p.Rec[fmt.Sprintf("C/%d/%d/%s/%s", i.Hdr.Height, v, i.Hdr.Hash, i.Sender.ID)]
			}
			if !pre {
				continue
			}
			res := e.localStep(int(ng[ps]), Event{'d', x.Msg})
			q := e.lstate(res.Next)
			bad := func(clause, format string, a ...interface{}) {
				viol = append(viol, Violation{Prop: "C11", Clause: clause, Detail: fmt.Sprintf("n%d (h%d,v%d) ", pnode, p.Height, p.View) + fmt.Sprintf(format, a...), HasExt: true, ExtPeer: pnode, ExtMsg: x.Msg})
			}
			switch i.Kind {
			case ref.KNV:
				if q.Height == p.Height && len(q.Commits) == len(p.Commits) {
					prepared := false
					for _, y := range q.Sent {
						mi := e.msg(y.Msg).Info
						if mi.Kind == ref.KP && mi.Hdr.View == v && mi.Hdr.Hash == i.PP.Hash {
							prepared = true
						}
					}
					if q.View != v || !prepared {
						bad("newview-not-adopted", "did not adopt the correct leader's %s (view after delivery %d, PREPARE sent=%v)", i.Desc(), q.View, prepared)
					}
				}
			case ref.KVC:
				if q.Height == p.Height && !q.Rec[vcKey(i)] && q.View <= v {
					bad("vote-not-counted", "as the addressed leader did not count the correct member's %s", i.Desc())
				}
			case ref.KP:
				if q.Height == p.Height && len(q.Commits) == len(p.Commits) && !q.Rec[fmt.Sprintf("P/%d/%d/%s/%s", i.Hdr.Height, v, i.Hdr.Hash, i.Sender.ID)] {
					bad("prepare-not-counted", "did not count the correct member's %s", i.Desc())
				}
			case ref.KC:
				if q.Height == p.Height && len(q.Commits) == len(p.Commits) && !q.Rec[fmt.Sprintf("C/%d/%d/%s/%s", i.Hdr.Height, v, i.Hdr.Hash, i.Sender.ID)] {
					bad("commit-not-counted", "did not count the correct member's %s", i.Desc())
				}
			}
		}
	}
	return viol
}

func vcKey(i ref.Info) string {
	return fmt.Sprintf("VCS/%d/%d/%s", i.Hdr.Height, i.Hdr.View, i.Sender.ID)
}

func (e *Engine) Run(maxFound int) {
	g0 := e.Init()
	e.visited[g0] = gedge{depth: 0}
	frontier := []GKey{g0}
	e.States = 1
	e.Exhaustive = true
	depth := int32(0)
	const chunk = 2048
	var herr interface{}
outer:
	for len(frontier) > 0 {
		e.MaxDepth = int(depth)
		var next []GKey
		for off := 0; off < len(frontier); off += chunk {
			if len(e.Found) >= maxFound {
				e.Exhaustive, e.StopReason = false, "violation found"
				break outer
			}
			if e.Cfg.Cap > 0 && e.States >= e.Cfg.Cap {
				e.Exhaustive, e.StopReason = false, fmt.Sprintf("state cap %d (depth %d fully explored)", e.Cfg.Cap, depth-1)
				break outer
			}
			if !e.Cfg.Deadline.IsZero() && time.Now().After(e.Cfg.Deadline) {
				e.Exhaustive, e.StopReason = false, fmt.Sprintf("wall-clock budget (every event sequence of length <= %d explored)", depth)
				break outer
			}
			part := frontier[off:min(off+chunk, len(frontier))]
			results := make([][]succ, len(part))
			var wg sync.WaitGroup
			var idx int64 = -1
			for w := 0; w < e.Workers; w++ {
				wg.Add(1)
				go func() {
					defer wg.Done()
					defer func() {
						if r := recover(); r != nil {
							e.mu.Lock()
							if herr == nil {
								herr = r
								if _, ok := r.(HarnessError); !ok {
									herr = HarnessError{fmt.Sprintf("panic in an expansion worker: %v\n%s", r, debug.Stack())}
								}
							}
							e.mu.Unlock()
						}
					}()
					for {
						i := int(atomic.AddInt64(&idx, 1))
						if i >= len(part) {
							return
						}
						results[i] = e.expand(part[i])
					}
				}()
			}
			wg.Wait()
			if herr != nil {
				if he, ok := herr.(HarnessError); ok && strings.HasPrefix(he.Msg, "abstraction unsound") {
					e.Unsound = he.Msg
					e.Exhaustive, e.StopReason = false, "abstraction unsound (hidden state in the code under test, or harness nondeterminism): merged search stopped"
					break outer
				}
				panic(herr)
			}
			for i, g := range part {
				for _, sc := range results[i] {
					e.Transitions++
					for _, r := range sc.res {
						for _, v := range r.Viol {
							e.note(v, g, sc.ev)
						}
					}
					if _, ok := e.visited[sc.ng]; ok {
						continue
					}
					e.visited[sc.ng] = gedge{parent: g, ev: sc.ev, depth: depth + 1, seq: int32(e.States + 1)}
					e.States++
					e.checkGlobal(sc.ng, g, sc.ev)
					next = append(next, sc.ng)
				}
			}
		}
		frontier = next
		depth++
	}
	if len(frontier) == 0 && e.StopReason == "" {
		e.StopReason = "frontier empty"
	}
	e.RealSteps, e.Replayed = int(e.realSteps), int(e.replayed)
	for g := range e.visited {
		e.Outcomes[e.outcome(g)]++
	}
}

// outcome = the macro outcome of a global state (per node: height, view, committed tags).
func (e *Engine) outcome(g GKey) string {
	var p []string
	for s := range e.Honest {
		ls := e.lstate(int(g[s]))
		c := "-"
		for k, cm := range ls.Commits {
			if k == 0 {
				c = cm.Tag
			} else {
				c += "+" + cm.Tag
			}
		}
		p = append(p, fmt.Sprintf("%d.%d.%s", ls.Height, ls.View, c))
	}
	return strings.Join(p, " ")
}

// checkGlobal evaluates the global invariants on a newly reached state: C01 agreement and the global
// clause of C04 (a committed block was approved by some correct member's consumer, or produced by one).
func (e *Engine) checkGlobal(ng, from GKey, ev GEvent) {
	byH := map[uint64]string{}
	approved := map[string]bool{}
	for s := range e.Honest {
		ls := e.lstate(int(ng[s]))
		for _, t := range ls.Approved {
			approved[t] = true
		}
		for _, t := range ls.Requested {
			approved[t] = true
		}
	}
	for s, node := range e.Honest {
		for _, c := range e.lstate(int(ng[s])).Commits {
			if prev, ok := byH[c.Height]; ok && prev != c.Tag {
				e.note(Violation{Prop: "C01", Clause: "disagreement", Detail: fmt.Sprintf("height %d: blocks %s and %s both committed by correct nodes (n%d)", c.Height, prev, c.Tag, node)}, from, ev)
			}
			byH[c.Height] = c.Tag
			if !approved[c.Tag] {
				e.note(Violation{Prop: "C04", Clause: "commit-unvalidated-block", Detail: fmt.Sprintf("n%d committed %s which no correct member's ValidateBlockProposal approved and no correct member proposed", node, c.Tag)}, from, ev)
			}
		}
	}
}

// ---------------------------------------------------------------- traces and replay

type TraceEvent struct {
	Kind    string `json:"kind"`
	Node    int    `json:"node"`
	Desc    string `json:"desc,omitempty"`
	Prim    string `json:"prim,omitempty"`
	Content string `json:"content,omitempty"`
	Block   string `json:"block,omitempty"`
	BlockH  uint64 `json:"block_height,omitempty"`
}

type ReplayFile struct {
	TwoHeight bool          `json:"two_height_enumeration,omitempty"`
	C11Ext    bool          `json:"c11_extension_last_event,omitempty"`
	Live      *LiveOpt      `json:"liveness_extension,omitempty"`
	LiveLog   []string      `json:"liveness_log,omitempty"`
	SyncLive  *SyncLiveSpec `json:"liveness_after_sync,omitempty"`
	Property  string        `json:"property"`
	Config    string        `json:"config"`
	Violation Violation     `json:"violation"`
	Events    []TraceEvent  `json:"events"`
	Engine    string        `json:"engine"`
}

type SyncLiveSpec struct {
	Silent []int `json:"silent"`
	Synced []int `json:"synced"`
}

func (e *Engine) Render(f Found) ReplayFile {
	rf := ReplayFile{Property: f.V.Prop, Config: e.Cfg.Name, Violation: f.V, Engine: "pmc"}
	g := e.visited[f.State]
	_ = g
	// re-walk the trace, expanding flushes into the deliveries they performed
	cur := e.InitKey()
	for _, ev := range f.Trace {
		slot := e.slotOf(int(ev.Node))
		switch ev.Kind {
		case 'f':
			ls := e.lstate(int(cur[slot]))
			c := int(cur[slot])
			for _, m := range e.addressed(e.soup(cur), int(ev.Node), ls) {
				r := e.localStep(c, Event{'d', m})
				if r.Next != c || len(r.Viol) > 0 {
					rf.Events = append(rf.Events, e.msgEvent("deliver", int(ev.Node), m))
				}
				c = r.Next
				if e.finished(e.lstate(int(c))) {
					break
				}
			}
			cur[slot] = int32(c)
		case 'd', 'b':
			kind := "deliver"
			if ev.Kind == 'b' {
				kind = "byz"
			}
			rf.Events = append(rf.Events, e.msgEvent(kind, int(ev.Node), int(ev.Msg)))
			cur[slot] = int32(e.localStep(int(cur[slot]), Event{'d', int(ev.Msg)}).Next)
		case 't':
			rf.Events = append(rf.Events, TraceEvent{Kind: "timeout", Node: int(ev.Node)})
			cur[slot] = int32(e.localStep(int(cur[slot]), Event{'t', 0}).Next)
		}
	}
	if f.V.HasExt {
		rf.Events = append(rf.Events, e.msgEvent("deliver", f.V.ExtPeer, f.V.ExtMsg))
		rf.C11Ext = true
	}
	return rf
}

func (e *Engine) InitKey() GKey {
	for g, ed := range e.visited {
		if ed.depth == 0 {
			return g
		}
	}
	panic("no initial state")
}

func (e *Engine) slotOf(node int) int {
	for s, n := range e.Honest {
		if n == node {
			return s
		}
	}
	panic("not an honest node")
}

func (e *Engine) msgEvent(kind string, node, m int) TraceEvent {
	x := e.msg(int(m))
	return TraceEvent{Kind: kind, Node: node, Desc: x.Info.Desc(), Prim: x.Prim, Content: hex.EncodeToString(x.Raw.Content), Block: kit.TagOf(x.Raw.Block), BlockH: blockHeight(x.Raw.Block)}
}

// Replay re-executes a trace on fresh real nodes WITHOUT tables or state merging and returns every
// violation the monitors and the global invariants raise.
func Replay(cfg Cfg, rf ReplayFile) ([]Violation, []string) {
	e := NewEngine(cfg)
	nodes := map[int]*LNode{}
	var viol []Violation
	var log []string
	for _, i := range e.Honest {
		nodes[i] = NewLNode(e.W, i)
		obs := nodes[i].Start()
		viol = append(viol, obs.Viol...)
	}
	for k, ev := range rf.Events {
		n := nodes[ev.Node]
		if n == nil {
			continue
		}
		var obs StepObs
		switch ev.Kind {
		case "deliver", "byz":
			c, _ := hex.DecodeString(ev.Content)
			raw := &interfaces.ConsensusRawMessage{Content: c}
			if ev.Block != "-" && ev.Block != "" {
				raw.Block = kit.NewBlock(ev.BlockH, ev.Block)
			}
			info := ref.Parse(raw)
			obs = n.Step(Event{Kind: 'd'}, raw, info, nil)
			if rf.C11Ext && k == len(rf.Events)-1 {
				// the one-step extension of C11: the stated effect must have followed
				v := info.Hdr.View
				rec := map[string]bool{}
				for _, d := range n.Store.Rec {
					rec[d] = true
					if f := strings.Split(d, "/"); f[0] == "VC" && len(f) >= 4 {
						rec["VCS/"+f[1]+"/"+f[2]+"/"+f[3]] = true
					}
				}
				sameH := uint64(n.V.S.Height()) == info.Hdr.Height && len(n.Commits) == 0
				switch info.Kind {
				case ref.KNV:
					prepared := false
					for _, o := range n.Comm.Outs {
						oi := ref.Parse(o.Msg)
						if oi.Kind == ref.KP && oi.Hdr.View == v && oi.Hdr.Hash == info.PP.Hash {
							prepared = true
						}
					}
					if sameH && (uint64(n.V.S.View()) != v || !prepared) {
						viol = append(viol, Violation{Prop: "C11", Clause: "newview-not-adopted", Detail: fmt.Sprintf("n%d did not adopt the correct leader's %s", ev.Node, info.Desc())})
					}
				case ref.KVC:
					if sameH && !rec[vcKey(info)] && uint64(n.V.S.View()) <= v {
						viol = append(viol, Violation{Prop: "C11", Clause: "vote-not-counted", Detail: fmt.Sprintf("n%d did not count %s", ev.Node, info.Desc())})
					}
				case ref.KP:
					if sameH && !rec[fmt.Sprintf("P/%d/%d/%s/%s", info.Hdr.Height, v, info.Hdr.Hash, info.Sender.ID)] {
						viol = append(viol, Violation{Prop: "C11", Clause: "prepare-not-counted", Detail: fmt.Sprintf("n%d did not count %s", ev.Node, info.Desc())})
					}
				case ref.KC:
					if sameH && !rec[fmt.Sprintf("C/%d/%d/%s/%s", info.Hdr.Height, v, info.Hdr.Hash, info.Sender.ID)] {
						viol = append(viol, Violation{Prop: "C11", Clause: "commit-not-counted", Detail: fmt.Sprintf("n%d did not count %s", ev.Node, info.Desc())})
					}
				}
			}
		case "timeout":
			obs = n.Step(Event{Kind: 't'}, nil, ref.Info{}, nil)
		}
		viol = append(viol, obs.Viol...)
		hv := n.V.S.HeightView()
		log = append(log, fmt.Sprintf("%s n%d -> %s outs=%d commits=%v viol=%d", ev.Kind, ev.Node, hv, len(obs.Outs), obs.Commits, len(obs.Viol)))
	}
	// global invariants
	byH := map[uint64]string{}
	approved := map[string]bool{}
	for _, n := range nodes {
		for t := range n.Approved {
			approved[t] = true
		}
		for t := range n.Requested {
			approved[t] = true
		}
	}
	idx := make([]int, 0)
	for i := range nodes {
		idx = append(idx, i)
	}
	sort.Ints(idx)
	for _, i := range idx {
		for _, c := range nodes[i].Commits {
			if prev, ok := byH[c.Height]; ok && prev != c.Tag {
				viol = append(viol, Violation{Prop: "C01", Clause: "disagreement", Detail: fmt.Sprintf("height %d: blocks %s and %s both committed by correct nodes (n%d)", c.Height, prev, c.Tag, i)})
			}
			byH[c.Height] = c.Tag
			if !approved[c.Tag] {
				viol = append(viol, Violation{Prop: "C04", Clause: "commit-unvalidated-block", Detail: fmt.Sprintf("n%d committed %s which no correct member approved or proposed", i, c.Tag)})
			}
		}
	}
	return viol, log
}

func WriteReplay(path string, rf ReplayFile) error {
	b, _ := json.MarshalIndent(rf, "", " ")
	return os.WriteFile(path, b, 0644)
}

func ReadReplay(path string) (ReplayFile, error) {
	var rf ReplayFile
	b, err := os.ReadFile(path)
	if err != nil {
		return rf, err
	}
	return rf, json.Unmarshal(b, &rf)
}

var _ = protocol.LEAN_HELIX_COMMIT

// SampleTrace renders one explored execution (a shortest one in which a node committed, else a deepest one).
func (e *Engine) SampleTrace() map[string]interface{} {
	var best GKey
	bestD, found := int32(1<<30), false
	var deep GKey
	deepD := int32(-1)
	for g, ed := range e.visited {
		if ed.depth > deepD {
			deep, deepD = g, ed.depth
		}
		for s := range e.Honest {
			if len(e.lstate(int(g[s])).Commits) > 0 && ed.depth < bestD {
				best, bestD, found = g, ed.depth, true
			}
		}
	}
	if !found {
		best = deep
	}
	var evs []string
	for _, ev := range e.trace(best) {
		s := fmt.Sprintf("%c n%d", ev.Kind, ev.Node)
		if ev.Msg >= 0 {
			s += " " + e.msg(int(ev.Msg)).Info.Desc()
		}
		evs = append(evs, s)
	}
	return map[string]interface{}{"config": e.Cfg.Name, "events": evs, "end_state": e.outcome(best)}
}

func (e *Engine) NumLocal() int { return e.nl }
func (e *Engine) NumMsgs() int  { return e.nm }

func (e *Engine) histStr(h []Event) string {
	var r []string
	for _, ev := range h {
		if ev.Kind == 'd' {
			r = append(r, fmt.Sprintf("d[%d:%s]", ev.Msg, e.msg(ev.Msg).Info.Desc()))
		} else {
			r = append(r, string(ev.Kind))
		}
	}
	return strings.Join(r, "\n  ")
}

// RenderLocalHist renders a violation seen on one node's local history.
func (e *Engine) RenderLocalHist(f LocalFound) ReplayFile {
	rf := ReplayFile{Property: f.V.Prop, Config: e.Cfg.Name, Violation: f.V, Engine: "pmc"}
	for _, ev := range f.Hist {
		switch ev.Kind {
		case 'd':
			rf.Events = append(rf.Events, e.msgEvent("deliver", f.Node, ev.Msg))
		case 't':
			rf.Events = append(rf.Events, TraceEvent{Kind: "timeout", Node: f.Node})
		}
	}
	return rf
}

// RenderLocal renders a differential finding: the history of one local state followed by the mutant.
func (e *Engine) RenderLocal(f Found) ReplayFile {
	ls := e.lstate(int(f.State[0]))
	rf := ReplayFile{Property: f.V.Prop, Config: e.Cfg.Name, Violation: f.V, Engine: "pmc"}
	for _, ev := range ls.Hist {
		switch ev.Kind {
		case 'd':
			rf.Events = append(rf.Events, e.msgEvent("deliver", ls.Node, ev.Msg))
		case 't':
			rf.Events = append(rf.Events, TraceEvent{Kind: "timeout", Node: ls.Node})
		}
	}
	rf.Events = append(rf.Events, e.msgEvent("byz", ls.Node, int(f.State[1])))
	return rf
}

// TraceTo returns the event path from the initial state to g.
func (e *Engine) TraceTo(g GKey) []GEvent { return e.trace(g) }

// ReplayLive re-executes the prefix of a liveness counterexample on a fresh engine and re-runs the timed extension.
func ReplayLive(cfg Cfg, rf ReplayFile) (bool, string, []string) {
	e := NewEngine(cfg)
	g := e.Init()
	e.visited[g] = gedge{depth: 0}
	for _, ev := range rf.Events {
		slot := e.slotOf(ev.Node)
		switch ev.Kind {
		case "deliver", "byz":
			c, _ := hex.DecodeString(ev.Content)
			raw := &interfaces.ConsensusRawMessage{Content: c}
			if ev.Block != "-" && ev.Block != "" {
				raw.Block = kit.NewBlock(ev.BlockH, ev.Block)
			}
			id := e.intern(raw, ev.Prim)
			g[slot] = int32(e.localStep(int(g[slot]), Event{'d', id}).Next)
		case "timeout":
			g[slot] = int32(e.localStep(int(g[slot]), Event{'t', 0}).Next)
		}
	}
	ok, why, _, log, _ := e.extend(g, *rf.Live, true)
	return ok, why, log
}

// MsgsByPrim: how many distinct messages each adversary primitive contributed ("" = honest outputs).
func (e *Engine) MsgsByPrim() map[string]int {
	r := map[string]int{}
	for i := 0; i < e.nm; i++ {
		r[e.msgs[i].Prim]++
	}
	return r
}
