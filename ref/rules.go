package ref

import (
	"math/big"

	"verif/kit"

	"github.com/orbs-network/lean-helix-go/spec/types/go/protocol"
)

// Rules = the committee-dependent reference arithmetic and validity predicates.
type Rules struct {
	C    kit.Committee
	Inst uint64
	W    *big.Int // total weight
	F    *big.Int // floor((W-1)/3)
	Q    *big.Int // W - F
}

func NewRules(c kit.Committee) *Rules {
	r := &Rules{C: c, Inst: uint64(kit.Instance), W: new(big.Int)}
	for _, m := range c {
		r.W.Add(r.W, new(big.Int).SetUint64(m.Weight))
	}
	r.F, r.Q = FQ(r.W)
	return r
}

// FQ: f = floor((W-1)/3), Q = W - f (W > 0); for W == 0 the code's convention Q = 1, f = 0 is used.
func FQ(w *big.Int) (f, q *big.Int) {
	if w.Sign() == 0 {
		return big.NewInt(0), big.NewInt(1)
	}
	f = new(big.Int).Sub(w, big.NewInt(1))
	f.Div(f, big.NewInt(3))
	q = new(big.Int).Sub(w, f)
	return
}

func (r *Rules) Member(id string) bool { return r.C.Index([]byte(id)) >= 0 }

func (r *Rules) Leader(view uint64) string {
	n := uint64(len(r.C))
	return string(r.C[view%n].ID)
}

// Weight of a set of ids (duplicates / outsiders add nothing).
func (r *Rules) Weight(ids map[string]bool) *big.Int {
	w := new(big.Int)
	for _, m := range r.C {
		if ids[string(m.ID)] {
			w.Add(w, new(big.Int).SetUint64(m.Weight))
		}
	}
	return w
}

func (r *Rules) IsQuorum(ids map[string]bool) bool { return r.Weight(ids).Cmp(r.Q) >= 0 }
func (r *Rules) HasHonest(ids map[string]bool) bool { return r.Weight(ids).Cmp(r.F) > 0 }

// ValidPreparedProof: valid signatures over one (instance, height, earlier view, hash) by that view's
// leader and by distinct other committee members together reaching quorum weight (C08).
func (r *Rules) ValidPreparedProof(p Proof, height, beforeView uint64) bool {
	if !p.Present {
		return false
	}
	if p.PP.Height != height || p.P.Height != height {
		return false
	}
	if p.PP.View != p.P.View || p.PP.View >= beforeView {
		return false
	}
	if p.PP.Hash != p.P.Hash || p.PP.Inst != r.Inst || p.P.Inst != r.Inst {
		return false
	}
	// (the message types inside the two refs are not constrained: C08 asks for valid signatures over one
	// (instance, height, view, hash); a member's COMMIT signature for that tuple is at least as strong)
	leader := r.Leader(p.PP.View)
	if p.PPSender.ID != leader || !p.PPSender.SigOK {
		return false
	}
	ids := map[string]bool{leader: true}
	for _, s := range p.PSenders {
		if !s.SigOK || !r.Member(s.ID) || s.ID == leader || ids[s.ID] {
			return false
		}
		ids[s.ID] = true
	}
	return r.IsQuorum(ids)
}

// ValidVote: a VIEW_CHANGE (stand-alone or embedded) for (inst, height, view) from a member with a
// genuine signature whose proof, if any, is valid.
func (r *Rules) ValidVote(v Vote, height, view uint64) bool {
	if v.Inst != r.Inst || v.Height != height || v.View != view || v.Type != int(protocol.LEAN_HELIX_VIEW_CHANGE) {
		return false
	}
	if !v.Sender.SigOK || !r.Member(v.Sender.ID) {
		return false
	}
	if v.Proof.Present && !r.ValidPreparedProof(v.Proof, height, view) {
		return false
	}
	return true
}

// ValidNewView states the NECESSARY conditions of C07 for a NEW_VIEW on which a node may act in
// (height, view): leader-signed, quorum of distinct genuinely signed member votes for exactly this
// (instance, height, view), proposal = block certified by the highest valid proof, else a fresh block.
// freshOK tells whether the consumer validated the attached block at this node (only used when no vote
// carries a valid proof).
func (r *Rules) ValidNewView(i Info, height, view uint64, freshOK bool) (bool, string) {
	if i.Bad || i.Kind != KNV {
		return false, "not a NEW_VIEW"
	}
	if i.Hdr.Inst != r.Inst || i.Hdr.Height != height || i.Hdr.View != view {
		return false, "instance/height/view mismatch"
	}
	if i.Sender.ID != r.Leader(view) || !i.Sender.SigOK {
		return false, "not signed by the leader of the view"
	}
	ids := map[string]bool{}
	var best *Vote
	for k := range i.Votes {
		v := i.Votes[k]
		if v.Inst != r.Inst || v.Height != height || v.View != view {
			return false, "vote for another instance/height/view"
		}
		if !v.Sender.SigOK {
			return false, "vote without a valid signature"
		}
		if v.Type != int(protocol.LEAN_HELIX_VIEW_CHANGE) {
			// what the member signed is not a VIEW_CHANGE (a PREPARE or COMMIT has the same wire layout): it never voted
			return false, "vote whose signed header declares another message type"
		}
		if !r.Member(v.Sender.ID) {
			continue // adds no weight; the member votes must satisfy the rule on their own
		}
		if ids[v.Sender.ID] {
			return false, "duplicate voter"
		}
		ids[v.Sender.ID] = true
		if v.Proof.Present && r.ValidPreparedProof(v.Proof, height, view) {
			if best == nil || v.Proof.PP.View > best.Proof.PP.View {
				best = &i.Votes[k]
			}
		}
	}
	if !r.IsQuorum(ids) {
		return false, "votes below quorum weight"
	}
	if i.PP.Inst != r.Inst || i.PP.Height != height || i.PP.View != view {
		return false, "embedded proposal for another instance/height/view"
	}
	if i.PPSender.ID != r.Leader(view) || !i.PPSender.SigOK {
		return false, "embedded proposal not signed by the leader"
	}
	if i.BlockHsh == "" || i.BlockHsh != i.PP.Hash {
		return false, "attached block does not match the proposed hash"
	}
	if best != nil {
		if best.Proof.PP.Hash != i.PP.Hash {
			return false, "proposal is not the block of the highest valid prepared proof"
		}
		return true, ""
	}
	if !freshOK {
		return false, "fresh block not validated by the consumer"
	}
	return true, ""
}
