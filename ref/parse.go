// Package ref holds the deliberately boring reference models and predicates (DESIGN.md §3.4).
// They are written from the property texts, not from the code under test.
package ref

import (
	"bytes"
	"fmt"
	"sort"
	"strings"

	"verif/kit"

	"github.com/orbs-network/lean-helix-go/services/interfaces"
	"github.com/orbs-network/lean-helix-go/spec/types/go/primitives"
	"github.com/orbs-network/lean-helix-go/spec/types/go/protocol"
)

const (
	KPP = "PP"
	KP  = "P"
	KC  = "C"
	KVC = "VC"
	KNV = "NV"
)

// SS = a (member id, signature) pair with the signature already judged against the header it signs.
type SS struct {
	ID    string
	SigOK bool
}

type Ref struct {
	Type   int
	Inst   uint64
	Height uint64
	View   uint64
	Hash   string
}

type Proof struct {
	Present  bool
	PP       Ref
	P        Ref
	PPSender SS
	PSenders []SS
}

type Vote struct {
	Type   int
	Inst   uint64
	Height uint64
	View   uint64
	Sender SS
	Proof  Proof
}

// Info is the canonical descriptor of a raw consensus message.
type Info struct {
	Kind     string // envelope union tag
	Hdr      Ref    // signed header (Hash empty for VC/NV)
	Sender   SS
	Share    []byte // COMMIT only
	Proof    Proof  // VC only
	Votes    []Vote // NV only
	PP       Ref    // NV only: embedded PREPREPARE header
	PPSender SS     // NV only
	BlockTag string
	BlockH   uint64
	BlockHsh string // HashOf(block) or ""
	Bad      bool   // unparsable
	NonCanon bool   // the signed header (or, for NV, the embedded PREPREPARE header) is not the canonical encoding of its fields
}

func sigOK(h primitives.BlockHeight, hdr []byte, s *protocol.SenderSignature) SS {
	if s == nil {
		return SS{}
	}
	id := s.MemberId()
	return SS{ID: string(id), SigOK: len(id) > 0 && bytes.Equal(kit.Sig("C", id, h, hdr), s.Signature())}
}

func refOf(b *protocol.BlockRef) Ref {
	if b == nil {
		return Ref{}
	}
	return Ref{Type: int(b.MessageType()), Inst: uint64(b.InstanceId()), Height: uint64(b.BlockHeight()), View: uint64(b.View()), Hash: fmt.Sprintf("%x", []byte(b.BlockHash()))}
}

func proofOf(p *protocol.PreparedProof) Proof {
	if p == nil || len(p.Raw()) == 0 {
		return Proof{}
	}
	r := Proof{Present: true, PP: refOf(p.PreprepareBlockRef()), P: refOf(p.PrepareBlockRef())}
	r.PPSender = sigOK(p.PreprepareBlockRef().BlockHeight(), p.PreprepareBlockRef().Raw(), p.PreprepareSender())
	it := p.PrepareSendersIterator()
	for it.HasNext() {
		s := it.NextPrepareSenders()
		r.PSenders = append(r.PSenders, sigOK(p.PrepareBlockRef().BlockHeight(), p.PrepareBlockRef().Raw(), s))
	}
	return r
}

func voteOf(c *protocol.ViewChangeMessageContent) Vote {
	h := c.SignedHeader()
	return Vote{Type: int(h.MessageType()), Inst: uint64(h.InstanceId()), Height: uint64(h.BlockHeight()), View: uint64(h.View()),
		Sender: sigOK(h.BlockHeight(), h.Raw(), c.Sender()), Proof: proofOf(h.PreparedProof())}
}

// Parse never panics: unparsable content yields Info{Bad:true}.
func Parse(raw *interfaces.ConsensusRawMessage) (info Info) {
	defer func() {
		if r := recover(); r != nil {
			info = Info{Bad: true}
		}
	}()
	if raw == nil {
		return Info{Bad: true}
	}
	info.BlockTag = kit.TagOf(raw.Block)
	if raw.Block != nil {
		info.BlockH = uint64(raw.Block.Height())
		info.BlockHsh = fmt.Sprintf("%x", []byte(kit.HashOf(raw.Block)))
	}
	c := protocol.LeanhelixContentReader(raw.Content)
	switch {
	case c.IsMessagePreprepareMessage():
		m := c.PreprepareMessage()
		info.Kind = KPP
		info.Hdr = refOf(m.SignedHeader())
		info.Sender = sigOK(m.SignedHeader().BlockHeight(), m.SignedHeader().Raw(), m.Sender())
		info.NonCanon = !kit.CanonRef(m.SignedHeader())
	case c.IsMessagePrepareMessage():
		m := c.PrepareMessage()
		info.Kind = KP
		info.Hdr = refOf(m.SignedHeader())
		info.Sender = sigOK(m.SignedHeader().BlockHeight(), m.SignedHeader().Raw(), m.Sender())
		info.NonCanon = !kit.CanonRef(m.SignedHeader())
	case c.IsMessageCommitMessage():
		m := c.CommitMessage()
		info.Kind = KC
		info.Hdr = refOf(m.SignedHeader())
		info.Sender = sigOK(m.SignedHeader().BlockHeight(), m.SignedHeader().Raw(), m.Sender())
		info.Share = append([]byte{}, m.Share()...)
		info.NonCanon = !kit.CanonRef(m.SignedHeader())
	case c.IsMessageViewChangeMessage():
		m := c.ViewChangeMessage()
		h := m.SignedHeader()
		info.Kind = KVC
		info.Hdr = Ref{Type: int(h.MessageType()), Inst: uint64(h.InstanceId()), Height: uint64(h.BlockHeight()), View: uint64(h.View())}
		info.Sender = sigOK(h.BlockHeight(), h.Raw(), m.Sender())
		info.Proof = proofOf(h.PreparedProof())
		info.NonCanon = !kit.CanonVote(h)
	case c.IsMessageNewViewMessage():
		m := c.NewViewMessage()
		h := m.SignedHeader()
		info.Kind = KNV
		info.Hdr = Ref{Type: int(h.MessageType()), Inst: uint64(h.InstanceId()), Height: uint64(h.BlockHeight()), View: uint64(h.View())}
		info.Sender = sigOK(h.BlockHeight(), h.Raw(), m.Sender())
		it := h.ViewChangeConfirmationsIterator()
		for it.HasNext() {
			info.Votes = append(info.Votes, voteOf(it.NextViewChangeConfirmations()))
		}
		pp := m.Message()
		info.PP = refOf(pp.SignedHeader())
		info.PPSender = sigOK(pp.SignedHeader().BlockHeight(), pp.SignedHeader().Raw(), pp.Sender())
		info.NonCanon = !kit.CanonRef(pp.SignedHeader())
	default:
		info.Bad = true
	}
	return info
}

func (s SS) String() string {
	if s.SigOK {
		return s.ID
	}
	return s.ID + "!"
}

func (p Proof) String() string {
	if !p.Present {
		return "noproof"
	}
	ps := make([]string, len(p.PSenders))
	for i, s := range p.PSenders {
		ps[i] = s.String()
	}
	sort.Strings(ps)
	return fmt.Sprintf("proof{pp=%s v%d h%d #%s | p=v%d h%d #%s by[%s]}", p.PPSender, p.PP.View, p.PP.Height, short(p.PP.Hash), p.P.View, p.P.Height, short(p.P.Hash), strings.Join(ps, ","))
}

func short(h string) string {
	if len(h) > 6 {
		return h[:6]
	}
	return h
}

// Desc is a human-readable canonical rendering used in traces and evidence samples.
func (i Info) Desc() string {
	if i.NonCanon {
		j := i
		j.NonCanon = false
		return j.Desc() + " ~noncanonical-header"
	}
	if i.Bad {
		return "BAD"
	}
	switch i.Kind {
	case KPP, KP, KC:
		s := fmt.Sprintf("%s(h%d v%d #%s) from %s", i.Kind, i.Hdr.Height, i.Hdr.View, short(i.Hdr.Hash), i.Sender)
		if i.Kind == KPP {
			s += " blk=" + i.BlockTag
		}
		return s
	case KVC:
		return fmt.Sprintf("VC(h%d v%d %s) from %s blk=%s", i.Hdr.Height, i.Hdr.View, i.Proof, i.Sender, i.BlockTag)
	case KNV:
		vs := make([]string, len(i.Votes))
		for k, v := range i.Votes {
			vs[k] = fmt.Sprintf("%s:v%d:%s", v.Sender, v.View, v.Proof)
		}
		return fmt.Sprintf("NV(h%d v%d votes[%s] pp=%s v%d #%s) from %s blk=%s", i.Hdr.Height, i.Hdr.View, strings.Join(vs, " "), i.PPSender, i.PP.View, short(i.PP.Hash), i.Sender, i.BlockTag)
	}
	return "?"
}
