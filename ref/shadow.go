package ref

import (
	"fmt"
	"sort"
	"strings"

	"github.com/orbs-network/lean-helix-go/spec/types/go/protocol"
)

// Shadow is the per-node reference record of what was DELIVERED to the node and what it EMITTED at
// its current height. Two flavours of facts are kept:
//   liberal  – necessary conditions ("the node may do X only if ..."): every genuine message ever delivered counts;
//   strict   – sufficient conditions ("the node holds a certificate, so it must ..."): only what the protocol
//              rules of C08 say has to be counted (timely, role-correct).
type Shadow struct {
	R      *Rules
	Me     string
	Height uint64
	View   uint64 // observed state view after the last step

	// liberal facts
	Props map[uint64]map[string]string // view -> hash -> block tag: genuine proposals of leader(view) delivered (stand-alone or in NEW_VIEW) or own
	Comms map[string]map[string]bool   // "v/hash" -> genuine member COMMITs delivered
	NVs   map[uint64]map[string]bool   // view -> proposal hashes of reference-valid NEW_VIEWs delivered

	// strict facts
	Accepted   map[uint64]string          // view -> hash the node adopted (it sent PREPARE for it, or proposed it)
	AccTag     map[uint64]string          // view -> block tag of the adopted proposal
	TimelyPrep map[string]map[string]bool // "v/hash" -> genuine non-leader member PREPAREs delivered while View <= v
	Prepared   map[uint64]bool            // views with a complete strict certificate
	OptVotes   map[uint64]map[string]bool            // view -> sender: valid votes the leader MAY count (proof-less with a stray block)
	VoteForms  map[uint64]map[string]map[string]bool // view -> sender -> proof renderings of every valid vote delivered
	Votes      map[uint64]map[string]Vote // view -> sender -> reference-valid votes delivered to me as leader(view) while View <= view, with block ok
	TimedOutTo map[uint64]bool            // views entered by own timeout (own vote exists)

	// own outputs
	OwnProp   map[uint64]string
	OwnPrep   map[uint64]string
	OwnCommit map[uint64]string
	LastVC    int64
	MaxOut    uint64 // highest view seen in own outputs / state samples
	Committed bool
}

func NewShadow(r *Rules, me string) *Shadow {
	s := &Shadow{R: r, Me: me}
	s.Reset(0)
	return s
}

func (s *Shadow) Reset(height uint64) {
	s.Height, s.View = height, 0
	s.Props = map[uint64]map[string]string{}
	s.Comms = map[string]map[string]bool{}
	s.NVs = map[uint64]map[string]bool{}
	s.Accepted = map[uint64]string{}
	s.AccTag = map[uint64]string{}
	s.TimelyPrep = map[string]map[string]bool{}
	s.Prepared = map[uint64]bool{}
	s.Votes = map[uint64]map[string]Vote{}
	s.OptVotes = map[uint64]map[string]bool{}
	s.VoteForms = map[uint64]map[string]map[string]bool{}
	s.TimedOutTo = map[uint64]bool{}
	s.OwnProp = map[uint64]string{}
	s.OwnPrep = map[uint64]string{}
	s.OwnCommit = map[uint64]string{}
	s.LastVC = -1
	s.MaxOut = 0
	s.Committed = false
}

func vh(v uint64, h string) string { return fmt.Sprintf("%d/%s", v, h) }

func add(m map[string]map[string]bool, k, id string) {
	if m[k] == nil {
		m[k] = map[string]bool{}
	}
	m[k][id] = true
}

// OnDeliver records a message delivered to the node (before the node processes it). shareOK tells
// whether a COMMIT's random-seed share is genuine; freshOK whether this node's consumer validator
// approves the attached block.
func (s *Shadow) OnDeliver(i Info, shareOK, freshOK bool) {
	if i.Bad || i.Hdr.Inst != s.R.Inst || i.Hdr.Height != s.Height || i.Sender.ID == s.Me {
		return
	}
	if i.NonCanon {
		// a signature over a non-canonical encoding of the header cannot be carried into anything the node builds
		// (block proof, prepared proof, NEW_VIEW vote): such a message is not part of any certificate
		return
	}
	r := s.R
	switch i.Kind {
	case KPP:
		// a proposal can only be adopted in the view the node is in (C10: nothing for lower views; C07: nothing ahead without NEW_VIEW)
		if i.Sender.SigOK && i.Sender.ID == r.Leader(i.Hdr.View) && i.Hdr.Type == int(protocol.LEAN_HELIX_PREPREPARE) && s.View == i.Hdr.View {
			s.addProp(i.Hdr.View, i.Hdr.Hash, i.BlockTag)
		}
	case KP:
		// stale-view PREPAREs are ignored (C08), PREPAREs never come from the leader
		if i.Sender.SigOK && r.Member(i.Sender.ID) && i.Hdr.Type == int(protocol.LEAN_HELIX_PREPARE) && i.Sender.ID != r.Leader(i.Hdr.View) && s.View <= i.Hdr.View {
			add(s.TimelyPrep, vh(i.Hdr.View, i.Hdr.Hash), i.Sender.ID)
			s.Recheck(i.Hdr.View)
		}
	case KC:
		if i.Sender.SigOK && r.Member(i.Sender.ID) && shareOK && i.Hdr.Type == int(protocol.LEAN_HELIX_COMMIT) {
			add(s.Comms, vh(i.Hdr.View, i.Hdr.Hash), i.Sender.ID)
		}
	case KVC:
		v := Vote{Type: i.Hdr.Type, Inst: i.Hdr.Inst, Height: i.Hdr.Height, View: i.Hdr.View, Sender: i.Sender, Proof: i.Proof}
		if r.Leader(i.Hdr.View) == s.Me && s.View <= i.Hdr.View && r.ValidVote(v, s.Height, i.Hdr.View) {
			// votes a correct member can emit (no proof and no block, or a valid proof with its block) MUST be
			// counted; a valid vote with a stray or missing block MAY be counted (the rules do not say).
			must := !i.Proof.Present && i.BlockTag == "-" || i.Proof.Present && i.BlockHsh == i.Proof.PP.Hash
			if s.VoteForms[i.Hdr.View] == nil {
				s.VoteForms[i.Hdr.View] = map[string]map[string]bool{}
			}
			if s.VoteForms[i.Hdr.View][i.Sender.ID] == nil {
				s.VoteForms[i.Hdr.View][i.Sender.ID] = map[string]bool{}
			}
			s.VoteForms[i.Hdr.View][i.Sender.ID][v.Proof.String()] = true
			if must {
				if s.Votes[i.Hdr.View] == nil {
					s.Votes[i.Hdr.View] = map[string]Vote{}
				}
				if _, dup := s.Votes[i.Hdr.View][i.Sender.ID]; !dup {
					s.Votes[i.Hdr.View][i.Sender.ID] = v
				}
			} else if !i.Proof.Present {
				// a proof-less vote with a stray block: may be counted
				if s.OptVotes[i.Hdr.View] == nil {
					s.OptVotes[i.Hdr.View] = map[string]bool{}
				}
				s.OptVotes[i.Hdr.View][i.Sender.ID] = true
			}
		}
	case KNV:
		if i.Hdr.View < s.View { // stale NEW_VIEW
			return
		}
		if i.PPSender.SigOK && i.PPSender.ID == r.Leader(i.PP.View) && i.PP.Height == s.Height && i.PP.View == i.Hdr.View {
			s.addProp(i.PP.View, i.PP.Hash, i.BlockTag)
		}
		if ok, _ := r.ValidNewView(i, s.Height, i.Hdr.View, freshOK); ok {
			if s.NVs[i.Hdr.View] == nil {
				s.NVs[i.Hdr.View] = map[string]bool{}
			}
			s.NVs[i.Hdr.View][i.PP.Hash] = true
		}
	}
}

func (s *Shadow) addProp(v uint64, hash, tag string) {
	if s.Props[v] == nil {
		s.Props[v] = map[string]string{}
	}
	s.Props[v][hash] = tag
}

// Recheck strict preparedness of view v.
func (s *Shadow) Recheck(v uint64) {
	h, ok := s.Accepted[v]
	if !ok || s.View != v {
		return
	}
	ids := map[string]bool{s.R.Leader(v): true}
	for id := range s.TimelyPrep[vh(v, h)] {
		ids[id] = true
	}
	if s.Me != s.R.Leader(v) {
		ids[s.Me] = true
	}
	if s.R.IsQuorum(ids) {
		s.Prepared[v] = true
	}
}

// HighestPrepared returns the highest strictly prepared view.
func (s *Shadow) HighestPrepared() (uint64, bool) {
	best, ok := uint64(0), false
	for v := range s.Prepared {
		if !ok || v > best {
			best, ok = v, true
		}
	}
	return best, ok
}

// liberal certificate for COMMIT(v,hash): prepared certificate or commit quorum.
func (s *Shadow) MayCommit(v uint64, hash string) bool {
	_, propOK := s.Props[v][hash]
	if s.OwnProp[v] == hash {
		propOK = true
	}
	if !propOK {
		return false
	}
	ids := map[string]bool{s.R.Leader(v): true}
	for id := range s.TimelyPrep[vh(v, hash)] {
		ids[id] = true
	}
	if s.OwnPrep[v] == hash {
		ids[s.Me] = true
	}
	if s.R.IsQuorum(ids) {
		return true
	}
	return s.R.IsQuorum(s.Comms[vh(v, hash)])
}

// Dump renders the shadow canonically (part of the canonical local state).
func (s *Shadow) Dump() string {
	var b strings.Builder
	fmt.Fprintf(&b, "sh{h%d v%d lvc%d mo%d", s.Height, s.View, s.LastVC, s.MaxOut)
	b.WriteString(" props=" + dump2(s.Props))
	b.WriteString(" tprep=" + dumpSet(s.TimelyPrep))
	b.WriteString(" comms=" + dumpSet(s.Comms))
	b.WriteString(" nvs=" + dumpVS(s.NVs))
	b.WriteString(" acc=" + dumpU(s.Accepted))
	b.WriteString(" prepd=" + dumpB(s.Prepared))
	b.WriteString(" to=" + dumpB(s.TimedOutTo))
	b.WriteString(" op=" + dumpU(s.OwnProp) + " opr=" + dumpU(s.OwnPrep) + " oc=" + dumpU(s.OwnCommit))
	vs := []string{}
	for v, m := range s.Votes {
		for id, vt := range m {
			vs = append(vs, fmt.Sprintf("%d:%s:%s", v, id, vt.Proof))
		}
	}
	for v, m := range s.OptVotes {
		for id := range m {
			vs = append(vs, fmt.Sprintf("%d:%s:opt", v, id))
		}
	}
	for v, m := range s.VoteForms {
		for id, fs := range m {
			for f := range fs {
				vs = append(vs, fmt.Sprintf("%d:%s:form:%s", v, id, f))
			}
		}
	}
	sort.Strings(vs)
	b.WriteString(" votes=" + strings.Join(vs, ","))
	b.WriteString("}")
	return b.String()
}

func dump2(m map[uint64]map[string]string) string {
	var r []string
	for v, x := range m {
		for h, t := range x {
			r = append(r, fmt.Sprintf("%d/%s/%s", v, short(h), t))
		}
	}
	sort.Strings(r)
	return strings.Join(r, ",")
}
func dumpSet(m map[string]map[string]bool) string {
	var r []string
	for k, x := range m {
		for id := range x {
			r = append(r, k+":"+id)
		}
	}
	sort.Strings(r)
	return strings.Join(r, ",")
}
func dumpVS(m map[uint64]map[string]bool) string {
	var r []string
	for v, x := range m {
		for h := range x {
			r = append(r, fmt.Sprintf("%d/%s", v, short(h)))
		}
	}
	sort.Strings(r)
	return strings.Join(r, ",")
}
func dumpU(m map[uint64]string) string {
	var r []string
	for v, h := range m {
		r = append(r, fmt.Sprintf("%d/%s", v, short(h)))
	}
	sort.Strings(r)
	return strings.Join(r, ",")
}
func dumpB(m map[uint64]bool) string {
	var r []string
	for v := range m {
		r = append(r, fmt.Sprint(v))
	}
	sort.Strings(r)
	return strings.Join(r, ",")
}
