package ref

import "fmt"

// Filter is the list-based reference of C17: which received messages MUST / MAY / MUST NOT reach the
// handler of which term, and in what order.
type FMsg struct {
	ID      int
	Height  uint64
	BadInst bool
	Mine    bool
	At      int // receive order
}

type Filter struct {
	Cur         uint64
	HasHandler  bool
	MaxAccepted uint64            // highest height accepted for caching so far
	Cached      map[uint64][]FMsg // accepted-for-caching messages by height, in receive order
	Optional    map[int]uint64    // messages that may (or may not) be delivered at the start of their height
	Expect      []string          // deliveries that MUST happen, in order: "termHeight:msgID"
	n           int
}

func NewFilter() *Filter {
	return &Filter{Cached: map[uint64][]FMsg{}, Optional: map[int]uint64{}}
}

// Recv returns the delivery that must happen now ("" if none).
func (f *Filter) Recv(m FMsg) string {
	m.At = f.n
	f.n++
	if m.Mine || m.Height < f.Cur {
		return ""
	}
	if m.BadInst {
		return ""
	}
	if m.Height == f.Cur {
		if f.HasHandler {
			return fmt.Sprintf("%d:%d", f.Cur, m.ID)
		}
		return ""
	}
	if m.Height >= f.MaxAccepted {
		f.MaxAccepted = m.Height
		f.Cached[m.Height] = append(f.Cached[m.Height], m)
	} else {
		f.Optional[m.ID] = m.Height
	}
	return ""
}

// Start (the node starts height h with a handler): returns the deliveries that must happen, in order,
// and the set of message ids that may additionally be interleaved (in receive order).
func (f *Filter) Start(h uint64) (must []FMsg, may []FMsg) {
	f.Cur = h
	f.HasHandler = true
	ms := f.Cached[h]
	if f.MaxAccepted > h {
		may = ms // a message above h was accepted for caching before h started: h's messages are optional
	} else {
		must = ms
	}
	for hh := range f.Cached {
		if hh <= h {
			delete(f.Cached, hh)
		}
	}
	return
}

func (f *Filter) Dump() string {
	s := fmt.Sprintf("cur=%d hdl=%v max=%d", f.Cur, f.HasHandler, f.MaxAccepted)
	for h := f.Cur; h <= f.Cur+8; h++ {
		if ms := f.Cached[h]; len(ms) > 0 {
			s += fmt.Sprintf(" %d:%d", h, len(ms))
		}
	}
	return s
}
