#!/bin/bash
# usage: ./bgcheck.sh <name> <tier> <id>...   — runs checks from a scratch copy of /verif against /repo's HEAD in a
# scratch worktree (so that work in /verif and /repo can go on meanwhile); results in /tmp/wt/bg-<name>.log
name="$1"; tier="$2"; shift 2
wt=/tmp/wt/bgr-$name; vc=/tmp/wt/bgv-$name
git -C /repo worktree remove --force "$wt" 2>/dev/null
git -C /repo worktree add -q --detach "$wt" HEAD || exit 2
trap 'git -C /repo worktree remove --force "$wt" 2>/dev/null; rm -rf "$vc"' EXIT
rsync -a --delete --exclude .git --exclude bin --exclude replays --exclude .scratch "$(dirname "$(readlink -f "$0")")/" "$vc/" || exit 2
for c in "$@"; do
  s=$(date +%s); VERIF_REPO="$wt" "$vc/check.sh" $c $tier > /tmp/wt/bg-$name-$c.out 2>&1; rc=$?
  echo "$c $tier rc=$rc $(( $(date +%s) - s ))s violations=$(grep -c '^VIOLATION' /tmp/wt/bg-$name-$c.out) $(python3 -c "
import json,sys
try:
  e=json.load(open('$vc/evidence/$c.json')); c=e['coverage']; print('states=%s transitions=%s exhaustive=%s'%(c.get('states'),c.get('transitions'),c.get('exhaustive')))
except Exception as x: print('noevidence',x)
")" >> /tmp/wt/bg-$name.log
  mkdir -p /tmp/wt/bg-evid; cp "$vc/evidence/$c.json" /tmp/wt/bg-evid/$c.$tier.json 2>/dev/null
done
