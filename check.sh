#!/bin/bash
# usage: ./check.sh <property id> <quick|thorough> | ./check.sh <property id> replay <path>
# exit 0 = property held on everything explored; 1 = VIOLATION line printed; 2 = harness/build problem.
export GOFLAGS=-mod=mod GOPROXY=off GOSUMDB=off GOTOOLCHAIN=local
export VERIF_ROOT="$(cd "$(dirname "$0")" && pwd)"
cd "$VERIF_ROOT" || exit 2
id="$1"; tier="${2:-quick}"; path="$3"
[ -n "$VERIF_TIER" ] && [ "$tier" != replay ] && [ -z "$2" ] && tier="$VERIF_TIER"
mkdir -p bin evidence replays
engine_of() {
  case "$1" in
    C01|C03|C04|C05|C07|C08|C09|C10|C11) echo pmc ;;
    C02|C06|C17|C18|C20) echo enum ;;
    C12|C13|C14|C15|C16|C19) echo vsched ;;
    *) echo unknown ;;
  esac
}
eng=$(engine_of "$id")
[ "$eng" = unknown ] && { echo "unknown property $id" >&2; exit 2; }
bin="bin/$eng-$id-$tier-$$"
trap 'rm -f "$bin"' EXIT
build() { # $1 = package
  go build -tags verif -o "$bin" "$1" 2> "bin/build-$id-$$.log" || { cat "bin/build-$id-$$.log" >&2; rm -f "bin/build-$id-$$.log"; echo "build of $1 against /repo failed" >&2; exit 2; }
  rm -f "bin/build-$id-$$.log"
}
case "$eng" in
  pmc)
    build ./cmd/pmc
    if [ "$tier" = replay ]; then "$bin" -replay "$path"; rc=$?; [ $rc = 1 ] && exit 1; exit $rc; fi
    "$bin" -prop "$id" -tier "$tier"; exit $?
    ;;
  enum)
    build ./cmd/enum
    if [ "$tier" = replay ]; then "$bin" -prop "$id" -replay "$path"; exit $?; fi
    "$bin" -prop "$id" -tier "$tier"; exit $?
    ;;
  vsched)
    exec ./vsched.sh "$id" "$tier" "$path"
    ;;
esac
