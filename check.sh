#!/bin/bash
# usage: ./check.sh <property id> <quick|thorough> | ./check.sh <property id> replay <path>
# exit 0 = property held on everything explored; 1 = VIOLATION line printed; 2 = harness/build problem.
export GOFLAGS=-mod=mod GOPROXY=off GOSUMDB=off GOTOOLCHAIN=local
export VERIF_ROOT="$(cd "$(dirname "$0")" && pwd)"
cd "$VERIF_ROOT" || exit 2
id="$1"; tier="${2:-quick}"; path="$3"
# VERIF_REPO (default /repo): the tree the engines are built against; a scratch copy may be given (seed testing)
if [ -n "$VERIF_REPO" ] && [ "$VERIF_REPO" != /repo ]; then
  mkdir -p .scratch
  sed "s#=> /repo\$#=> $VERIF_REPO#" go.mod > ".scratch/go.$$.mod"; cp go.sum ".scratch/go.$$.sum"
  export GOFLAGS="-mod=mod -modfile=$VERIF_ROOT/.scratch/go.$$.mod"
  trap 'rm -f "$VERIF_ROOT/.scratch/go.$$.mod" "$VERIF_ROOT/.scratch/go.$$.sum"' EXIT
fi
OUT="${VERIF_OUT:-$VERIF_ROOT}"
mkdir -p bin "$OUT/evidence/parts" "$OUT/replays"
# parts of each property: engine[:part]
parts_of() {
  case "$1" in
    C01|C03|C04|C05|C07|C08) echo "pmc" ;;
    C09) echo "pmc:protocol enum:extractor" ;;
    C10) echo "pmc:protocol vsched:runtime" ;;
    C11) echo "pmc:protocol vsched:runtime" ;;
    C02|C06|C18|C20) echo "enum" ;;
    C17) echo "enum:filter pmc:twoheight" ;;
    C14|C16) echo "vsched" ;;
    C13) echo "vsched:runtime pmc:twoheight racecheck:race" ;;
    C12) echo "vsched:runtime vsched:scenarios enum:api pmc:protocol" ;;
    C15) echo "enum:registry vsched:runtime" ;;
    C19) echo "enum:formula vsched:races" ;;
    *) echo unknown ;;
  esac
}
parts=$(parts_of "$id")
[ "$parts" = unknown ] && { echo "unknown property $id" >&2; exit 2; }
build() { # $1 = package, $2 = output
  go build -tags verif -o "$2" "$1" 2> "$2.log" || { cat "$2.log" >&2; rm -f "$2.log"; echo "build of $1 against /repo failed" >&2; exit 2; }
  rm -f "$2.log"
}
run_part() { # $1 = engine, $2 = part name ("" if single)
  local eng="$1" part="$2" bin="bin/$1-$id-$tier-$$"
  case "$eng" in
    pmc)
      build ./cmd/pmc "$bin"
      if [ "$tier" = replay ]; then "$bin" -replay "$path"; else "$bin" -prop "$id" -tier "$tier"; fi ;;
    enum)
      build ./cmd/enum "$bin"
      if [ "$tier" = replay ]; then "$bin" -prop "$id" -part "$part" -replay "$path"; else "$bin" -prop "$id" -part "$part" -tier "$tier"; fi ;;
    vsched)
      ./vsched.sh "$id" "$tier" "$path" ;;
    racecheck)
      # free-running -race pass: an unsynchronised shared access is a behaviour outside what E2 schedules
      go build -race -tags verif -o "$bin" ./cmd/racecheck 2> "$bin.log" || { cat "$bin.log" >&2; rm -f "$bin.log"; echo "race build failed" >&2; return 2; }
      rm -f "$bin.log"
      local n=150; [ "$tier" = thorough ] && n=1500
      VERIF_TIER_NAME="$tier" "$bin" $n > "$bin.out" 2>&1; local rrc=$?
      if grep -q "WARNING: DATA RACE" "$bin.out"; then
        cp "$bin.out" "$OUT/replays/$id-data-race.txt"; rm -f "$bin" "$bin.out"
        echo "VIOLATION property=$id replay=$OUT/replays/$id-data-race.txt"
        return 1
      fi
      tail -1 "$bin.out" >&2; rm -f "$bin.out"
      [ $rrc = 0 ] || { rm -f "$bin"; return 2; } ;;
  esac
  local rc=$?
  rm -f "$bin"
  return $rc
}
if [ "$tier" = replay ]; then
  # the replay file names its engine
  eng=$(grep -o '"engine": *"[a-z]*"' "$path" | head -1 | sed 's/.*"\([a-z]*\)"$/\1/')
  [ -z "$eng" ] && eng=pmc
  part=""
  for p in $parts; do [ "${p%%:*}" = "$eng" ] && { part="${p#*:}"; [ "$part" = "$p" ] && part=""; }; done
  run_part "$eng" "$part"; exit $?
fi
n=$(echo $parts | wc -w)
worst=0
rm -f "$OUT"/evidence/parts/$id.*.json
for p in $parts; do
  eng="${p%%:*}"; part="${p#*:}"; [ "$part" = "$p" ] && part=""
  if [ "$n" -gt 1 ]; then export VERIF_PART="$part"; else unset VERIF_PART; fi
  run_part "$eng" "$part"; rc=$?
  if [ $rc = 1 ]; then worst=1; elif [ $rc != 0 ] && [ $worst = 0 ]; then worst=2; fi
done
unset VERIF_PART
if [ "$n" -gt 1 ]; then
  build ./cmd/evmerge "bin/evmerge-$$"
  "bin/evmerge-$$" "$OUT" "$id" || worst=2
  rm -f "bin/evmerge-$$"
fi
exit $worst
