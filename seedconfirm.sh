#!/bin/bash
# usage: ./seedconfirm.sh <name> <agent worktree>
# Independent confirmation of a seeded change delivered by a sub-agent in <agent worktree>/SEED:
#   fresh scratch worktree of /repo HEAD; patch applies; builds; pinned suite passes (twice);
#   the demonstration fails with the change and passes without it. Copies the deliverables to seeded/<name>/.
name="$1"; aw="$2"
export GOFLAGS=-mod=mod GOPROXY=off GOSUMDB=off GOTOOLCHAIN=local
here="$(dirname "$(readlink -f "$0")")"
wt=/tmp/wt/cf-$name
mkdir -p /tmp/wt
git -C /repo worktree remove --force "$wt" 2>/dev/null
git -C /repo worktree add -q --detach "$wt" HEAD || exit 2
trap 'git -C /repo worktree remove --force "$wt" 2>/dev/null' EXIT
[ -f "$aw/SEED/patch.diff" ] || { echo "$name: no SEED/patch.diff"; exit 2; }
# demo file(s): untracked _test.go files in the agent's worktree outside SEED/
demos=$(cd "$aw" && git status --porcelain --untracked-files=all | grep '^??' | awk '{print $2}' | grep '_test\.go$' | grep -v '^SEED/')
[ -z "$demos" ] && { echo "$name: no demo test found in $aw"; exit 2; }
pkgs=""
for d in $demos; do mkdir -p "$wt/$(dirname $d)"; cp "$aw/$d" "$wt/$d"; pkgs="$pkgs ./$(dirname $d)/"; done
pkgs=$(echo $pkgs | tr ' ' '\n' | sort -u | tr '\n' ' ')
cd "$wt"
echo "$name: demo files: $demos"
out=$(timeout 600 go test -count=1 $pkgs 2>&1); rc0=$?
echo "$name: demo WITHOUT change: exit $rc0 (want 0)"
[ $rc0 != 0 ] && echo "$out" | tail -15
git apply "$aw/SEED/patch.diff" || { echo "$name: patch does not apply"; exit 2; }
go build ./... || { echo "$name: does not compile"; exit 2; }
out=$(timeout 600 go test -count=1 $pkgs 2>&1); rc1=$?
echo "$name: demo WITH change: exit $rc1 (want non-zero)"
echo "$out" | grep -E '^(---|FAIL|panic|\s+\S+_test.go)' | head -8
for d in $demos; do rm -f "$wt/$d"; done
s1=$(timeout 600 go test -timeout 300s -count=1 ./... 2>&1 | grep -c "^FAIL\|^---.*FAIL\|panic:")
s2=$(timeout 600 go test -timeout 300s -count=1 ./... 2>&1 | grep -c "^FAIL\|^---.*FAIL\|panic:")
echo "$name: suite with change, FAIL lines: run1=$s1 run2=$s2 (want 0 0)"
changed=$(git diff --stat | tail -1)
echo "$name: $changed"
mkdir -p "$here/seeded/$name"
cp "$aw/SEED/patch.diff" "$here/seeded/$name/patch.diff"
[ -f "$aw/SEED/NOTES.md" ] && cp "$aw/SEED/NOTES.md" "$here/seeded/$name/NOTES.md"
for d in $demos; do { echo "// belongs in: $(dirname $d)/$(basename $d)"; cat "$aw/$d"; } > "$here/seeded/$name/$(basename $d).txt"; done
if [ $rc0 = 0 ] && [ $rc1 != 0 ] && [ $s1 = 0 ] && [ $s2 = 0 ]; then echo "$name: CONFIRMED"; else echo "$name: NOT CONFIRMED"; fi
