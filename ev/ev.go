// Package ev writes evidence files (schema: /root/.vp/EVIDENCE.schema.json) and holds the
// known-findings bookkeeping shared by all engines.
package ev

import (
	"bufio"
	"encoding/json"
	"fmt"
	"os"
	"path/filepath"
	"strconv"
	"strings"
	"time"
)

type Evidence struct {
	PropertyID  string                 `json:"property_id"`
	Tier        string                 `json:"tier"`
	Seed        int                    `json:"seed"`
	Level       string                 `json:"level"`
	Coverage    map[string]interface{} `json:"coverage"`
	Assumptions []string               `json:"assumptions"`
	WallS       float64                `json:"wall_s"`
	Violations  int                    `json:"violations"`
}

func Root() string {
	if r := os.Getenv("VERIF_ROOT"); r != "" {
		return r
	}
	return "/verif"
}

// OutRoot is where evidence and replays are written: VERIF_OUT if set (seed testing against a scratch
// checkout must not overwrite the committed evidence), else Root().
func OutRoot() string {
	if r := os.Getenv("VERIF_OUT"); r != "" {
		return r
	}
	return Root()
}

func Seed() int {
	n, _ := strconv.Atoi(os.Getenv("VERIF_SEED"))
	return n
}

func New(prop, tier string) *Evidence {
	return &Evidence{PropertyID: prop, Tier: tier, Seed: Seed(), Level: "model_checking", Coverage: map[string]interface{}{}}
}

// Write stores the evidence. With VERIF_PART set, the file is a part (evidence/parts/<id>.<part>.json)
// that cmd/evmerge later folds into evidence/<id>.json.
func (e *Evidence) Write(start time.Time) {
	e.WallS = time.Since(start).Seconds()
	dir := filepath.Join(OutRoot(), "evidence")
	name := e.PropertyID + ".json"
	if part := os.Getenv("VERIF_PART"); part != "" {
		dir = filepath.Join(dir, "parts")
		name = e.PropertyID + "." + part + ".json"
	}
	os.MkdirAll(dir, 0755)
	b, _ := json.MarshalIndent(e, "", " ")
	if err := os.WriteFile(filepath.Join(dir, name), b, 0644); err != nil {
		fmt.Fprintln(os.Stderr, "cannot write evidence:", err)
		os.Exit(2)
	}
}

// Known findings: /verif/known_findings.txt, one per line:
//   finding: property=<id> fingerprint=<fp> <what fails>
//   fixed: property=<id> <commit> <what failed>
type Finding struct {
	Prop, FP, Text string
}

func Known(prop string) []Finding {
	f, err := os.Open(filepath.Join(Root(), "known_findings.txt"))
	if err != nil {
		return nil
	}
	defer f.Close()
	var r []Finding
	sc := bufio.NewScanner(f)
	for sc.Scan() {
		l := strings.TrimSpace(sc.Text())
		if !strings.HasPrefix(l, "finding:") {
			continue
		}
		fs := strings.Fields(l[len("finding:"):])
		var k Finding
		rest := []string{}
		for _, x := range fs {
			switch {
			case strings.HasPrefix(x, "property=") && k.Prop == "":
				k.Prop = x[len("property="):]
			case strings.HasPrefix(x, "fingerprint=") && k.FP == "":
				k.FP = x[len("fingerprint="):]
			default:
				rest = append(rest, x)
			}
		}
		k.Text = strings.Join(rest, " ")
		if prop == "" || k.Prop == prop {
			r = append(r, k)
		}
	}
	return r
}

// ReplayPath returns a path under /verif/replays for a new counterexample.
func ReplayPath(prop, name string) string {
	dir := filepath.Join(OutRoot(), "replays")
	os.MkdirAll(dir, 0755)
	return filepath.Join(dir, prop+"-"+name+".json")
}
